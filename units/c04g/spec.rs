// C04 / C06: what the DFA getters return (the base predicates are in wf.rs, shared with unit c02e)
verus! {

/// the tuple get_literal_transitions_from reports for the transition (from, id)
spec fn lit_entry(d: DFA, from: u32, id: InpId, t: (Ustr, Ustr, u32)) -> bool {
    used(d, from, id) && 0 <= ix_of(id) < d.inputs@.len() && match d.inputs@[ix_of(id)] {
        Inp::Literal { literal, description, fallback_level } => t.0 == literal && t.2 == d.transitions@[from][id]
            && (match description { Some(x) => t.1 == x, None => t.1@.len() == 0 }),
        _ => false,
    }
}

spec fn cmd_entry(d: DFA, from: u32, id: InpId, t: (Ustr, u32)) -> bool {
    used(d, from, id) && 0 <= ix_of(id) < d.inputs@.len() && match d.inputs@[ix_of(id)] {
        Inp::Command { cmd, fallback_level } => t.0 == cmd && t.1 == d.transitions@[from][id],
        _ => false,
    }
}

spec fn compadd_entry(d: DFA, from: u32, id: InpId, t: (Ustr, u32)) -> bool {
    used(d, from, id) && 0 <= ix_of(id) < d.inputs@.len() && match d.inputs@[ix_of(id)] {
        Inp::Compadd { cmd, fallback_level } => t.0 == cmd && t.1 == d.transitions@[from][id],
        _ => false,
    }
}

spec fn sub_entry(d: DFA, from: u32, id: InpId, t: (DFAId, u32)) -> bool {
    used(d, from, id) && 0 <= ix_of(id) < d.inputs@.len() && match d.inputs@[ix_of(id)] {
        Inp::Subword { subdfa, fallback_level } => t.0 == subdfa && t.1 == d.transitions@[from][id],
        _ => false,
    }
}

} // verus!
verus! {

/// the symbol runs the external command c (as a command or as a zsh compadd)
spec fn is_cmd(x: Inp, c: Ustr) -> bool {
    match x {
        Inp::Command { cmd, fallback_level } => cmd == c,
        Inp::Compadd { cmd, fallback_level } => cmd == c,
        _ => false,
    }
}

spec fn top_cmd(d: DFA, c: Ustr) -> bool { exists|x: Inp| #[trigger] on_edge(d, x) && is_cmd(x, c) }

spec fn sub_cmd(d: DFA, c: Ustr) -> bool { exists|s: DFA| #[trigger] is_subword_of(d, s) && top_cmd(s, c) }

/// what one transition symbol of d contributes to the command table
spec fn contrib(d: DFA, x: Inp, c: Ustr) -> bool {
    is_cmd(x, c) || (x is Subword && 0 <= dfa_ix(x->subdfa) < d.subdfas.store@.len() && top_cmd(d.subdfas.store@[dfa_ix(x->subdfa)], c))
}

spec fn contrib_upto(d: DFA, ins: Seq<&Inp>, n: int, c: Ustr) -> bool {
    exists|m: int| 0 <= m < n && m < ins.len() && #[trigger] contrib(d, *ins[m], c)
}

spec fn cmd_upto(ins: Seq<&Inp>, n: int, c: Ustr) -> bool {
    exists|m: int| 0 <= m < n && m < ins.len() && #[trigger] is_cmd(*ins[m], c)
}

} // verus!
verus! {

proof fn lemma_contrib_step(d: DFA, ins: Seq<&Inp>, n: int, c: Ustr)
    requires 0 <= n < ins.len()
    ensures contrib_upto(d, ins, n + 1, c) == (contrib_upto(d, ins, n, c) || contrib(d, *ins[n], c))
{
    if contrib_upto(d, ins, n + 1, c) {
        let m = choose|m: int| 0 <= m < n + 1 && m < ins.len() && #[trigger] contrib(d, *ins[m], c);
        if m < n { assert(contrib_upto(d, ins, n, c)); }
    }
    if contrib_upto(d, ins, n, c) {
        let m = choose|m: int| 0 <= m < n && m < ins.len() && #[trigger] contrib(d, *ins[m], c);
        assert(contrib_upto(d, ins, n + 1, c));
    }
    if contrib(d, *ins[n], c) { assert(contrib_upto(d, ins, n + 1, c)); }
}

proof fn lemma_cmd_step(ins: Seq<&Inp>, n: int, c: Ustr)
    requires 0 <= n < ins.len()
    ensures cmd_upto(ins, n + 1, c) == (cmd_upto(ins, n, c) || is_cmd(*ins[n], c))
{
    if cmd_upto(ins, n + 1, c) {
        let m = choose|m: int| 0 <= m < n + 1 && m < ins.len() && #[trigger] is_cmd(*ins[m], c);
        if m < n { assert(cmd_upto(ins, n, c)); }
    }
    if cmd_upto(ins, n, c) {
        let m = choose|m: int| 0 <= m < n && m < ins.len() && #[trigger] is_cmd(*ins[m], c);
        assert(cmd_upto(ins, n + 1, c));
    }
    if is_cmd(*ins[n], c) { assert(cmd_upto(ins, n + 1, c)); }
}

/// all symbols of the vector scanned = the symbols on the edges
proof fn lemma_cmd_all(d: DFA, ins: Seq<&Inp>, c: Ustr)
    requires
        forall|k: int| 0 <= k < ins.len() ==> on_edge(d, *(#[trigger] ins[k])),
        forall|x: Inp| on_edge(d, x) ==> exists|k: int| 0 <= k < ins.len() && *(#[trigger] ins[k]) == x,
    ensures cmd_upto(ins, ins.len() as int, c) == top_cmd(d, c)
{
    if cmd_upto(ins, ins.len() as int, c) {
        let m = choose|m: int| 0 <= m < ins.len() && m < ins.len() && #[trigger] is_cmd(*ins[m], c);
        assert(on_edge(d, *ins[m]));
    }
    if top_cmd(d, c) {
        let x = choose|x: Inp| #[trigger] on_edge(d, x) && is_cmd(x, c);
        let k = choose|k: int| 0 <= k < ins.len() && *(#[trigger] ins[k]) == x;
        assert(is_cmd(*ins[k], c));
    }
}

proof fn lemma_contrib_all(d: DFA, ins: Seq<&Inp>, c: Ustr)
    requires
        forall|k: int| 0 <= k < ins.len() ==> on_edge(d, *(#[trigger] ins[k])),
        forall|x: Inp| on_edge(d, x) ==> exists|k: int| 0 <= k < ins.len() && *(#[trigger] ins[k]) == x,
    ensures contrib_upto(d, ins, ins.len() as int, c) == (top_cmd(d, c) || sub_cmd(d, c))
{
    if contrib_upto(d, ins, ins.len() as int, c) {
        let m = choose|m: int| 0 <= m < ins.len() && m < ins.len() && #[trigger] contrib(d, *ins[m], c);
        let x = *ins[m];
        assert(on_edge(d, x));
        if !is_cmd(x, c) {
            let s = d.subdfas.store@[dfa_ix(x->subdfa)];
            assert(is_subword_of(d, s));
            assert(sub_cmd(d, c));
        }
    }
    if top_cmd(d, c) {
        let x = choose|x: Inp| #[trigger] on_edge(d, x) && is_cmd(x, c);
        let k = choose|k: int| 0 <= k < ins.len() && *(#[trigger] ins[k]) == x;
        assert(contrib(d, *ins[k], c));
    }
    if sub_cmd(d, c) {
        let s = choose|s: DFA| #[trigger] is_subword_of(d, s) && top_cmd(s, c);
        let x = choose|x: Inp| #[trigger] on_edge(d, x) && x is Subword && 0 <= dfa_ix(x->subdfa) < d.subdfas.store@.len() && d.subdfas.store@[dfa_ix(x->subdfa)] == s;
        let k = choose|k: int| 0 <= k < ins.len() && *(#[trigger] ins[k]) == x;
        assert(contrib(d, *ins[k], c));
    }
}

} // verus!
verus! {

/// the id the literal table gives to (text, description -- or the empty string when there is none)
spec fn lit_key(idm: Map<(Ustr, Ustr), u32>, lit: Ustr, descr: Option<Ustr>, lid: u32) -> bool {
    idm.contains_key((lit, descr_or_empty(descr))) && idm[(lit, descr_or_empty(descr))] == lid
}

/// the interned empty string
spec fn empty_ustr() -> Ustr { choose|e: Ustr| e@ =~= Seq::<char>::empty() }

spec fn descr_or_empty(descr: Option<Ustr>) -> Ustr {
    match descr { Some(d) => d, None => empty_ustr() }
}

proof fn lemma_empty_ustr(e: Ustr)
    requires e@.len() == 0
    ensures e == empty_ustr()
{
    assert(e@ =~= Seq::<char>::empty());
    assert(empty_ustr()@ =~= e@);
    axiom_ustr_interned(e.id, empty_ustr().id);
}

/// transition tr offers the literal with id lid at level l from state q
spec fn tr_lit(d: DFA, idm: Map<(Ustr, Ustr), u32>, tr: (u32, InpId, u32), l: int, q: u32, lid: u32) -> bool {
    tr.0 == q && 0 <= ix_of(tr.1) < d.inputs@.len() && match d.inputs@[ix_of(tr.1)] {
        Inp::Literal { literal, description, fallback_level } => fallback_level == l && lit_key(idm, literal, description, lid),
        _ => false,
    }
}

spec fn lit_compl(d: DFA, idm: Map<(Ustr, Ustr), u32>, l: int, q: u32, lid: u32) -> bool {
    exists|id: InpId| #[trigger] used(d, q, id) && tr_lit(d, idm, (q, id, d.transitions@[q][id]), l, q, lid)
}

spec fn lit_upto(d: DFA, idm: Map<(Ustr, Ustr), u32>, trs: Seq<(u32, InpId, u32)>, n: int, l: int, q: u32, lid: u32) -> bool {
    exists|m: int| 0 <= m < n && m < trs.len() && #[trigger] tr_lit(d, idm, trs[m], l, q, lid)
}

/// every literal on a transition is in the table and its level has a slot
spec fn lits_ready(d: DFA, idm: Map<(Ustr, Ustr), u32>, max: int) -> bool {
    forall|q: u32, id: InpId| #[trigger] used(d, q, id) ==> 0 <= ix_of(id) < d.inputs@.len() && match d.inputs@[ix_of(id)] {
        Inp::Literal { literal, description, fallback_level } => fallback_level <= max && (exists|lid: u32| lit_key(idm, literal, description, lid)),
        _ => true,
    }
}

proof fn lemma_lit_step(d: DFA, idm: Map<(Ustr, Ustr), u32>, trs: Seq<(u32, InpId, u32)>, n: int, l: int, q: u32, lid: u32)
    requires 0 <= n < trs.len()
    ensures lit_upto(d, idm, trs, n + 1, l, q, lid) == (lit_upto(d, idm, trs, n, l, q, lid) || tr_lit(d, idm, trs[n], l, q, lid))
{
    if lit_upto(d, idm, trs, n + 1, l, q, lid) {
        let m = choose|m: int| 0 <= m < n + 1 && m < trs.len() && #[trigger] tr_lit(d, idm, trs[m], l, q, lid);
        if m < n { assert(lit_upto(d, idm, trs, n, l, q, lid)); }
    }
    if lit_upto(d, idm, trs, n, l, q, lid) {
        let m = choose|m: int| 0 <= m < n && m < trs.len() && #[trigger] tr_lit(d, idm, trs[m], l, q, lid);
        assert(lit_upto(d, idm, trs, n + 1, l, q, lid));
    }
    if tr_lit(d, idm, trs[n], l, q, lid) { assert(lit_upto(d, idm, trs, n + 1, l, q, lid)); }
}

proof fn lemma_lit_all(d: DFA, idm: Map<(Ustr, Ustr), u32>, trs: Seq<(u32, InpId, u32)>, l: int, q: u32, lid: u32)
    requires
        forall|k: int| 0 <= k < trs.len() ==> used(d, (#[trigger] trs[k]).0, trs[k].1) && d.transitions@[trs[k].0][trs[k].1] == trs[k].2,
        forall|q2: u32, id: InpId| #[trigger] used(d, q2, id) ==> exists|k: int| 0 <= k < trs.len() && #[trigger] trs[k] == (q2, id, d.transitions@[q2][id]),
    ensures lit_upto(d, idm, trs, trs.len() as int, l, q, lid) == lit_compl(d, idm, l, q, lid)
{
    if lit_upto(d, idm, trs, trs.len() as int, l, q, lid) {
        let m = choose|m: int| 0 <= m < trs.len() && m < trs.len() && #[trigger] tr_lit(d, idm, trs[m], l, q, lid);
        assert(used(d, trs[m].0, trs[m].1));
        assert(trs[m] == (q, trs[m].1, d.transitions@[q][trs[m].1]));
    }
    if lit_compl(d, idm, l, q, lid) {
        let id = choose|id: InpId| #[trigger] used(d, q, id) && tr_lit(d, idm, (q, id, d.transitions@[q][id]), l, q, lid);
        let k = choose|k: int| 0 <= k < trs.len() && #[trigger] trs[k] == (q, id, d.transitions@[q][id]);
        assert(tr_lit(d, idm, trs[k], l, q, lid));
    }
}

} // verus!
verus! {

/// cid is the (32-bit) index of cmd in the command table
spec fn cmd_key(tab: Seq<Ustr>, cmd: Ustr, cid: u32) -> bool {
    exists|i: int| 0 <= i < tab.len() && #[trigger] tab[i] == cmd && cid == i as u32
}

spec fn tr_cmd(d: DFA, tab: Seq<Ustr>, tr: (u32, InpId, u32), l: int, q: u32, cid: u32) -> bool {
    tr.0 == q && 0 <= ix_of(tr.1) < d.inputs@.len() && match d.inputs@[ix_of(tr.1)] {
        Inp::Command { cmd, fallback_level } => fallback_level == l && cmd_key(tab, cmd, cid),
        _ => false,
    }
}

spec fn cmd_compl(d: DFA, tab: Seq<Ustr>, l: int, q: u32, cid: u32) -> bool {
    exists|id: InpId| #[trigger] used(d, q, id) && tr_cmd(d, tab, (q, id, d.transitions@[q][id]), l, q, cid)
}

spec fn cmd_tr_upto(d: DFA, tab: Seq<Ustr>, trs: Seq<(u32, InpId, u32)>, n: int, l: int, q: u32, cid: u32) -> bool {
    exists|m: int| 0 <= m < n && m < trs.len() && #[trigger] tr_cmd(d, tab, trs[m], l, q, cid)
}

/// every command on a transition is in the table and its level has a slot
spec fn cmds_ready(d: DFA, tab: Seq<Ustr>, max: int) -> bool {
    forall|q: u32, id: InpId| #[trigger] used(d, q, id) ==> 0 <= ix_of(id) < d.inputs@.len() && match d.inputs@[ix_of(id)] {
        Inp::Command { cmd, fallback_level } => fallback_level <= max && has_key(tab, cmd),
        _ => true,
    }
}

proof fn lemma_cmd_tr_step(d: DFA, tab: Seq<Ustr>, trs: Seq<(u32, InpId, u32)>, n: int, l: int, q: u32, cid: u32)
    requires 0 <= n < trs.len()
    ensures cmd_tr_upto(d, tab, trs, n + 1, l, q, cid) == (cmd_tr_upto(d, tab, trs, n, l, q, cid) || tr_cmd(d, tab, trs[n], l, q, cid))
{
    if cmd_tr_upto(d, tab, trs, n + 1, l, q, cid) {
        let m = choose|m: int| 0 <= m < n + 1 && m < trs.len() && #[trigger] tr_cmd(d, tab, trs[m], l, q, cid);
        if m < n { assert(cmd_tr_upto(d, tab, trs, n, l, q, cid)); }
    }
    if cmd_tr_upto(d, tab, trs, n, l, q, cid) {
        let m = choose|m: int| 0 <= m < n && m < trs.len() && #[trigger] tr_cmd(d, tab, trs[m], l, q, cid);
        assert(cmd_tr_upto(d, tab, trs, n + 1, l, q, cid));
    }
    if tr_cmd(d, tab, trs[n], l, q, cid) { assert(cmd_tr_upto(d, tab, trs, n + 1, l, q, cid)); }
}

proof fn lemma_cmd_tr_all(d: DFA, tab: Seq<Ustr>, trs: Seq<(u32, InpId, u32)>, l: int, q: u32, cid: u32)
    requires
        forall|k: int| 0 <= k < trs.len() ==> used(d, (#[trigger] trs[k]).0, trs[k].1) && d.transitions@[trs[k].0][trs[k].1] == trs[k].2,
        forall|q2: u32, id: InpId| #[trigger] used(d, q2, id) ==> exists|k: int| 0 <= k < trs.len() && #[trigger] trs[k] == (q2, id, d.transitions@[q2][id]),
    ensures cmd_tr_upto(d, tab, trs, trs.len() as int, l, q, cid) == cmd_compl(d, tab, l, q, cid)
{
    if cmd_tr_upto(d, tab, trs, trs.len() as int, l, q, cid) {
        let m = choose|m: int| 0 <= m < trs.len() && m < trs.len() && #[trigger] tr_cmd(d, tab, trs[m], l, q, cid);
        assert(used(d, trs[m].0, trs[m].1));
        assert(trs[m] == (q, trs[m].1, d.transitions@[q][trs[m].1]));
    }
    if cmd_compl(d, tab, l, q, cid) {
        let id = choose|id: InpId| #[trigger] used(d, q, id) && tr_cmd(d, tab, (q, id, d.transitions@[q][id]), l, q, cid);
        let k = choose|k: int| 0 <= k < trs.len() && #[trigger] trs[k] == (q, id, d.transitions@[q][id]);
        assert(tr_cmd(d, tab, trs[k], l, q, cid));
    }
}

/// in a table of pairwise different commands the index of a command is unique
proof fn lemma_cmd_key_unique(tab: Seq<Ustr>, cmd: Ustr, i: int, cid: u32)
    requires
        0 <= i < tab.len(), tab[i] == cmd, tab.len() <= u32::MAX,
        forall|a: int, b: int| 0 <= a < b < tab.len() ==> tab[a] != tab[b],
    ensures cmd_key(tab, cmd, cid) == (cid == i as u32)
{
    if cmd_key(tab, cmd, cid) {
        let j = choose|j: int| 0 <= j < tab.len() && #[trigger] tab[j] == cmd && cid == j as u32;
        if j < i { assert(tab[j] != tab[i]); }
        if i < j { assert(tab[i] != tab[j]); }
    }
}

} // verus!
verus! {

/// the index of cmd in the command table
spec fn cmd_ix(tab: Seq<Ustr>, cmd: Ustr, cid: usize) -> bool {
    exists|i: int| 0 <= i < tab.len() && #[trigger] tab[i] == cmd && cid == i
}

spec fn tr_compadd(d: DFA, tab: Seq<Ustr>, tr: (u32, InpId, u32), l: int, q: u32, cid: usize) -> bool {
    tr.0 == q && 0 <= ix_of(tr.1) < d.inputs@.len() && match d.inputs@[ix_of(tr.1)] {
        Inp::Compadd { cmd, fallback_level } => fallback_level == l && cmd_ix(tab, cmd, cid),
        _ => false,
    }
}

spec fn compadd_compl(d: DFA, tab: Seq<Ustr>, l: int, q: u32, cid: usize) -> bool {
    exists|id: InpId| #[trigger] used(d, q, id) && tr_compadd(d, tab, (q, id, d.transitions@[q][id]), l, q, cid)
}

spec fn compadd_upto(d: DFA, tab: Seq<Ustr>, trs: Seq<(u32, InpId, u32)>, n: int, l: int, q: u32, cid: usize) -> bool {
    exists|m: int| 0 <= m < n && m < trs.len() && #[trigger] tr_compadd(d, tab, trs[m], l, q, cid)
}

spec fn compadds_ready(d: DFA, tab: Seq<Ustr>, max: int) -> bool {
    forall|q: u32, id: InpId| #[trigger] used(d, q, id) ==> 0 <= ix_of(id) < d.inputs@.len() && match d.inputs@[ix_of(id)] {
        Inp::Compadd { cmd, fallback_level } => fallback_level <= max && has_key(tab, cmd),
        _ => true,
    }
}

proof fn lemma_compadd_step(d: DFA, tab: Seq<Ustr>, trs: Seq<(u32, InpId, u32)>, n: int, l: int, q: u32, cid: usize)
    requires 0 <= n < trs.len()
    ensures compadd_upto(d, tab, trs, n + 1, l, q, cid) == (compadd_upto(d, tab, trs, n, l, q, cid) || tr_compadd(d, tab, trs[n], l, q, cid))
{
    if compadd_upto(d, tab, trs, n + 1, l, q, cid) {
        let m = choose|m: int| 0 <= m < n + 1 && m < trs.len() && #[trigger] tr_compadd(d, tab, trs[m], l, q, cid);
        if m < n { assert(compadd_upto(d, tab, trs, n, l, q, cid)); }
    }
    if compadd_upto(d, tab, trs, n, l, q, cid) {
        let m = choose|m: int| 0 <= m < n && m < trs.len() && #[trigger] tr_compadd(d, tab, trs[m], l, q, cid);
        assert(compadd_upto(d, tab, trs, n + 1, l, q, cid));
    }
    if tr_compadd(d, tab, trs[n], l, q, cid) { assert(compadd_upto(d, tab, trs, n + 1, l, q, cid)); }
}

proof fn lemma_compadd_all(d: DFA, tab: Seq<Ustr>, trs: Seq<(u32, InpId, u32)>, l: int, q: u32, cid: usize)
    requires
        forall|k: int| 0 <= k < trs.len() ==> used(d, (#[trigger] trs[k]).0, trs[k].1) && d.transitions@[trs[k].0][trs[k].1] == trs[k].2,
        forall|q2: u32, id: InpId| #[trigger] used(d, q2, id) ==> exists|k: int| 0 <= k < trs.len() && #[trigger] trs[k] == (q2, id, d.transitions@[q2][id]),
    ensures compadd_upto(d, tab, trs, trs.len() as int, l, q, cid) == compadd_compl(d, tab, l, q, cid)
{
    if compadd_upto(d, tab, trs, trs.len() as int, l, q, cid) {
        let m = choose|m: int| 0 <= m < trs.len() && m < trs.len() && #[trigger] tr_compadd(d, tab, trs[m], l, q, cid);
        assert(used(d, trs[m].0, trs[m].1));
        assert(trs[m] == (q, trs[m].1, d.transitions@[q][trs[m].1]));
    }
    if compadd_compl(d, tab, l, q, cid) {
        let id = choose|id: InpId| #[trigger] used(d, q, id) && tr_compadd(d, tab, (q, id, d.transitions@[q][id]), l, q, cid);
        let k = choose|k: int| 0 <= k < trs.len() && #[trigger] trs[k] == (q, id, d.transitions@[q][id]);
        assert(tr_compadd(d, tab, trs[k], l, q, cid));
    }
}

proof fn lemma_cmd_ix_unique(tab: Seq<Ustr>, cmd: Ustr, i: int, cid: usize)
    requires
        0 <= i < tab.len(), tab[i] == cmd,
        forall|a: int, b: int| 0 <= a < b < tab.len() ==> tab[a] != tab[b],
    ensures cmd_ix(tab, cmd, cid) == (cid == i)
{
    if cmd_ix(tab, cmd, cid) {
        let j = choose|j: int| 0 <= j < tab.len() && #[trigger] tab[j] == cmd && cid == j;
        if j < i { assert(tab[j] != tab[i]); }
        if i < j { assert(tab[i] != tab[j]); }
    }
}

// ---- within-word automata per level ----
spec fn tr_sub(d: DFA, idm: Map<DFAId, usize>, tr: (u32, InpId, u32), l: int, q: u32, sidx: usize) -> bool {
    tr.0 == q && 0 <= ix_of(tr.1) < d.inputs@.len() && match d.inputs@[ix_of(tr.1)] {
        Inp::Subword { subdfa, fallback_level } => fallback_level == l && idm.contains_key(subdfa) && idm[subdfa] == sidx,
        _ => false,
    }
}

spec fn sub_compl(d: DFA, idm: Map<DFAId, usize>, l: int, q: u32, sidx: usize) -> bool {
    exists|id: InpId| #[trigger] used(d, q, id) && tr_sub(d, idm, (q, id, d.transitions@[q][id]), l, q, sidx)
}

spec fn sub_upto(d: DFA, idm: Map<DFAId, usize>, trs: Seq<(u32, InpId, u32)>, n: int, l: int, q: u32, sidx: usize) -> bool {
    exists|m: int| 0 <= m < n && m < trs.len() && #[trigger] tr_sub(d, idm, trs[m], l, q, sidx)
}

spec fn subs_ready(d: DFA, idm: Map<DFAId, usize>, max: int) -> bool {
    forall|q: u32, id: InpId| #[trigger] used(d, q, id) ==> 0 <= ix_of(id) < d.inputs@.len() && match d.inputs@[ix_of(id)] {
        Inp::Subword { subdfa, fallback_level } => fallback_level <= max && idm.contains_key(subdfa),
        _ => true,
    }
}

proof fn lemma_sub_step(d: DFA, idm: Map<DFAId, usize>, trs: Seq<(u32, InpId, u32)>, n: int, l: int, q: u32, sidx: usize)
    requires 0 <= n < trs.len()
    ensures sub_upto(d, idm, trs, n + 1, l, q, sidx) == (sub_upto(d, idm, trs, n, l, q, sidx) || tr_sub(d, idm, trs[n], l, q, sidx))
{
    if sub_upto(d, idm, trs, n + 1, l, q, sidx) {
        let m = choose|m: int| 0 <= m < n + 1 && m < trs.len() && #[trigger] tr_sub(d, idm, trs[m], l, q, sidx);
        if m < n { assert(sub_upto(d, idm, trs, n, l, q, sidx)); }
    }
    if sub_upto(d, idm, trs, n, l, q, sidx) {
        let m = choose|m: int| 0 <= m < n && m < trs.len() && #[trigger] tr_sub(d, idm, trs[m], l, q, sidx);
        assert(sub_upto(d, idm, trs, n + 1, l, q, sidx));
    }
    if tr_sub(d, idm, trs[n], l, q, sidx) { assert(sub_upto(d, idm, trs, n + 1, l, q, sidx)); }
}

proof fn lemma_sub_all(d: DFA, idm: Map<DFAId, usize>, trs: Seq<(u32, InpId, u32)>, l: int, q: u32, sidx: usize)
    requires
        forall|k: int| 0 <= k < trs.len() ==> used(d, (#[trigger] trs[k]).0, trs[k].1) && d.transitions@[trs[k].0][trs[k].1] == trs[k].2,
        forall|q2: u32, id: InpId| #[trigger] used(d, q2, id) ==> exists|k: int| 0 <= k < trs.len() && #[trigger] trs[k] == (q2, id, d.transitions@[q2][id]),
    ensures sub_upto(d, idm, trs, trs.len() as int, l, q, sidx) == sub_compl(d, idm, l, q, sidx)
{
    if sub_upto(d, idm, trs, trs.len() as int, l, q, sidx) {
        let m = choose|m: int| 0 <= m < trs.len() && m < trs.len() && #[trigger] tr_sub(d, idm, trs[m], l, q, sidx);
        assert(used(d, trs[m].0, trs[m].1));
        assert(trs[m] == (q, trs[m].1, d.transitions@[q][trs[m].1]));
    }
    if sub_compl(d, idm, l, q, sidx) {
        let id = choose|id: InpId| #[trigger] used(d, q, id) && tr_sub(d, idm, (q, id, d.transitions@[q][id]), l, q, sidx);
        let k = choose|k: int| 0 <= k < trs.len() && #[trigger] trs[k] == (q, id, d.transitions@[q][id]);
        assert(tr_sub(d, idm, trs[k], l, q, sidx));
    }
}

} // verus!
verus! {

/// the `||` level a symbol carries (none for the any-word symbol)
spec fn level_of(x: Inp) -> Option<usize> {
    match x {
        Inp::Literal { literal, description, fallback_level } => Some(fallback_level),
        Inp::Subword { subdfa, fallback_level } => Some(fallback_level),
        Inp::Command { cmd, fallback_level } => Some(fallback_level),
        Inp::Compadd { cmd, fallback_level } => Some(fallback_level),
        Inp::Star => None,
    }
}

/// m is the greatest level among the symbols labelling transitions
spec fn is_max_level(d: DFA, m: usize) -> bool {
    (exists|x: Inp| #[trigger] on_edge(d, x) && level_of(x) == Some(m))
    && (forall|x: Inp| #[trigger] on_edge(d, x) && level_of(x) is Some ==> level_of(x)->0 <= m)
}

} // verus!
verus! {

// ---- match tables: state -> (literal id -> target) ----

/// some literal transition of q has the id lid and leads to `to`
spec fn lit_cell(d: DFA, idm: Map<(Ustr, Ustr), u32>, q: u32, lid: u32, to: u32) -> bool {
    exists|id: InpId, t: (Ustr, Ustr, u32)| #[trigger] lit_entry(d, q, id, t) && idm.contains_key((t.0, t.1)) && idm[(t.0, t.1)] == lid && t.2 == to
}

/// among the first n tuples, one has the id lid and leads to `to`
spec fn cell_src(src: Seq<(Ustr, Ustr, u32)>, idm: Map<(Ustr, Ustr), u32>, n: int, lid: u32, to: u32) -> bool {
    exists|m: int| 0 <= m < n && m < src.len() && #[trigger] src_hit(src[m], idm, lid, to)
}

spec fn src_hit(t: (Ustr, Ustr, u32), idm: Map<(Ustr, Ustr), u32>, lid: u32, to: u32) -> bool {
    idm.contains_key((t.0, t.1)) && idm[(t.0, t.1)] == lid && t.2 == to
}

/// every literal transition (as get_literal_transitions_from reports it) is in the literal table
spec fn lits_known(d: DFA, idm: Map<(Ustr, Ustr), u32>) -> bool {
    forall|q: u32, id: InpId, t: (Ustr, Ustr, u32)| #[trigger] lit_entry(d, q, id, t) ==> idm.contains_key((t.0, t.1))
}

/// the row built from the tuples of one state
spec fn row_of(row: Map<u32, u32>, src: Seq<(Ustr, Ustr, u32)>, idm: Map<(Ustr, Ustr), u32>, n: int) -> bool {
    (forall|lid: u32| #[trigger] row.contains_key(lid) ==> cell_src(src, idm, n, lid, row[lid]))
    && (forall|lid: u32, to: u32| #[trigger] cell_src(src, idm, n, lid, to) ==> row.contains_key(lid))
}

proof fn lemma_cell_src_step(src: Seq<(Ustr, Ustr, u32)>, idm: Map<(Ustr, Ustr), u32>, n: int, lid: u32, to: u32)
    requires 0 <= n < src.len()
    ensures cell_src(src, idm, n + 1, lid, to) == (cell_src(src, idm, n, lid, to) || src_hit(src[n], idm, lid, to))
{
    if cell_src(src, idm, n + 1, lid, to) {
        let m = choose|m: int| 0 <= m < n + 1 && m < src.len() && #[trigger] src_hit(src[m], idm, lid, to);
        if m < n { assert(cell_src(src, idm, n, lid, to)); }
    }
    if cell_src(src, idm, n, lid, to) {
        let m = choose|m: int| 0 <= m < n && m < src.len() && #[trigger] src_hit(src[m], idm, lid, to);
        assert(cell_src(src, idm, n + 1, lid, to));
    }
    if src_hit(src[n], idm, lid, to) { assert(cell_src(src, idm, n + 1, lid, to)); }
}

/// the tuples of one state, all scanned, are its literal cells
proof fn lemma_cell_src_all(d: DFA, idm: Map<(Ustr, Ustr), u32>, q: u32, src: Seq<(Ustr, Ustr, u32)>, lid: u32, to: u32)
    requires forall|t: (Ustr, Ustr, u32)| src.contains(t) <==> exists|id: InpId| #[trigger] lit_entry(d, q, id, t)
    ensures cell_src(src, idm, src.len() as int, lid, to) == lit_cell(d, idm, q, lid, to)
{
    if cell_src(src, idm, src.len() as int, lid, to) {
        let m = choose|m: int| 0 <= m < src.len() && m < src.len() && #[trigger] src_hit(src[m], idm, lid, to);
        assert(src.contains(src[m]));
        let id = choose|id: InpId| #[trigger] lit_entry(d, q, id, src[m]);
        assert(lit_entry(d, q, id, src[m]) && idm.contains_key((src[m].0, src[m].1)));
    }
    if lit_cell(d, idm, q, lid, to) {
        let (id, t) = choose|id: InpId, t: (Ustr, Ustr, u32)| #[trigger] lit_entry(d, q, id, t) && idm.contains_key((t.0, t.1)) && idm[(t.0, t.1)] == lid && t.2 == to;
        assert(src.contains(t));
        let m = choose|m: int| 0 <= m < src.len() && src[m] == t;
        assert(src_hit(src[m], idm, lid, to));
    }
}

/// the table so far: rows for the states scanned, each the cells of that state
spec fn table_upto(d: DFA, idm: Map<(Ustr, Ustr), u32>, tab: Map<u32, BTreeMap<u32, u32>>, states: Seq<u32>, n: int) -> bool {
    (forall|q: u32, lid: u32| #[trigger] tab_has(tab, q, lid) ==> in_first(states, n, q) && lit_cell(d, idm, q, lid, tab[q]@[lid]))
    && (forall|q: u32, lid: u32, to: u32| in_first(states, n, q) && #[trigger] lit_cell(d, idm, q, lid, to) ==> tab_has(tab, q, lid))
    && (forall|q: u32| #[trigger] tab.contains_key(q) ==> exists|lid: u32| tab_has(tab, q, lid))
}

spec fn tab_has(tab: Map<u32, BTreeMap<u32, u32>>, q: u32, lid: u32) -> bool { tab.contains_key(q) && tab[q]@.contains_key(lid) }

spec fn in_first(states: Seq<u32>, n: int, q: u32) -> bool { exists|m: int| 0 <= m < n && m < states.len() && #[trigger] states[m] == q }

} // verus!
verus! {

spec fn csrc_hit(t: (Ustr, u32), tab: Seq<Ustr>, cid: u32, to: u32) -> bool { cmd_key(tab, t.0, cid) && t.1 == to }

// ---- match tables: state -> (cmdt id -> target) ----
spec fn cmdt_cell(d: DFA, tab: Seq<Ustr>, q: u32, cid: u32, to: u32) -> bool {
    exists|id: InpId, t: (Ustr, u32)| #[trigger] cmd_entry(d, q, id, t) && cmd_key(tab, t.0, cid) && t.1 == to
}

spec fn cmdt_src(src: Seq<(Ustr, u32)>, tab: Seq<Ustr>, n: int, cid: u32, to: u32) -> bool {
    exists|m: int| 0 <= m < n && m < src.len() && #[trigger] csrc_hit(src[m], tab, cid, to)
}

spec fn cmdts_known(d: DFA, tab: Seq<Ustr>) -> bool {
    forall|q: u32, id: InpId, t: (Ustr, u32)| #[trigger] cmd_entry(d, q, id, t) ==> has_key(tab, t.0)
}

spec fn cmdt_row_of(row: Map<u32, u32>, src: Seq<(Ustr, u32)>, tab: Seq<Ustr>, n: int) -> bool {
    (forall|cid: u32| #[trigger] row.contains_key(cid) ==> cmdt_src(src, tab, n, cid, row[cid]))
    && (forall|cid: u32, to: u32| #[trigger] cmdt_src(src, tab, n, cid, to) ==> row.contains_key(cid))
}

proof fn lemma_cmdt_src_step(src: Seq<(Ustr, u32)>, tab: Seq<Ustr>, n: int, cid: u32, to: u32)
    requires 0 <= n < src.len()
    ensures cmdt_src(src, tab, n + 1, cid, to) == (cmdt_src(src, tab, n, cid, to) || csrc_hit(src[n], tab, cid, to))
{
    if cmdt_src(src, tab, n + 1, cid, to) {
        let m = choose|m: int| 0 <= m < n + 1 && m < src.len() && #[trigger] csrc_hit(src[m], tab, cid, to);
        if m < n { assert(cmdt_src(src, tab, n, cid, to)); }
    }
    if cmdt_src(src, tab, n, cid, to) {
        let m = choose|m: int| 0 <= m < n && m < src.len() && #[trigger] csrc_hit(src[m], tab, cid, to);
        assert(cmdt_src(src, tab, n + 1, cid, to));
    }
    if csrc_hit(src[n], tab, cid, to) { assert(cmdt_src(src, tab, n + 1, cid, to)); }
}

proof fn lemma_cmdt_src_all(d: DFA, tab: Seq<Ustr>, q: u32, src: Seq<(Ustr, u32)>, cid: u32, to: u32)
    requires forall|t: (Ustr, u32)| src.contains(t) <==> exists|id: InpId| #[trigger] cmd_entry(d, q, id, t)
    ensures cmdt_src(src, tab, src.len() as int, cid, to) == cmdt_cell(d, tab, q, cid, to)
{
    if cmdt_src(src, tab, src.len() as int, cid, to) {
        let m = choose|m: int| 0 <= m < src.len() && m < src.len() && #[trigger] csrc_hit(src[m], tab, cid, to);
        assert(src.contains(src[m]));
        let id = choose|id: InpId| #[trigger] cmd_entry(d, q, id, src[m]);
        assert(cmd_entry(d, q, id, src[m]));
    }
    if cmdt_cell(d, tab, q, cid, to) {
        let (id, t) = choose|id: InpId, t: (Ustr, u32)| #[trigger] cmd_entry(d, q, id, t) && cmd_key(tab, t.0, cid) && t.1 == to;
        assert(src.contains(t));
        let m = choose|m: int| 0 <= m < src.len() && src[m] == t;
        assert(csrc_hit(src[m], tab, cid, to));
    }
}

spec fn cmdt_table_upto(d: DFA, tab: Seq<Ustr>, tb: Map<u32, BTreeMap<u32, u32>>, states: Seq<u32>, n: int) -> bool {
    (forall|q: u32, cid: u32| #[trigger] tab_has(tb, q, cid) ==> in_first(states, n, q) && cmdt_cell(d, tab, q, cid, tb[q]@[cid]))
    && (forall|q: u32, cid: u32, to: u32| in_first(states, n, q) && #[trigger] cmdt_cell(d, tab, q, cid, to) ==> tab_has(tb, q, cid))
    && (forall|q: u32| #[trigger] tb.contains_key(q) ==> exists|cid: u32| tab_has(tb, q, cid))
}

// ---- match tables: state -> (cpdt id -> target) ----
spec fn cpdt_cell(d: DFA, tab: Seq<Ustr>, q: u32, cid: u32, to: u32) -> bool {
    exists|id: InpId, t: (Ustr, u32)| #[trigger] compadd_entry(d, q, id, t) && cmd_key(tab, t.0, cid) && t.1 == to
}

spec fn cpdt_src(src: Seq<(Ustr, u32)>, tab: Seq<Ustr>, n: int, cid: u32, to: u32) -> bool {
    exists|m: int| 0 <= m < n && m < src.len() && #[trigger] csrc_hit(src[m], tab, cid, to)
}

spec fn cpdts_known(d: DFA, tab: Seq<Ustr>) -> bool {
    forall|q: u32, id: InpId, t: (Ustr, u32)| #[trigger] compadd_entry(d, q, id, t) ==> has_key(tab, t.0)
}

spec fn cpdt_row_of(row: Map<u32, u32>, src: Seq<(Ustr, u32)>, tab: Seq<Ustr>, n: int) -> bool {
    (forall|cid: u32| #[trigger] row.contains_key(cid) ==> cpdt_src(src, tab, n, cid, row[cid]))
    && (forall|cid: u32, to: u32| #[trigger] cpdt_src(src, tab, n, cid, to) ==> row.contains_key(cid))
}

proof fn lemma_cpdt_src_step(src: Seq<(Ustr, u32)>, tab: Seq<Ustr>, n: int, cid: u32, to: u32)
    requires 0 <= n < src.len()
    ensures cpdt_src(src, tab, n + 1, cid, to) == (cpdt_src(src, tab, n, cid, to) || csrc_hit(src[n], tab, cid, to))
{
    if cpdt_src(src, tab, n + 1, cid, to) {
        let m = choose|m: int| 0 <= m < n + 1 && m < src.len() && #[trigger] csrc_hit(src[m], tab, cid, to);
        if m < n { assert(cpdt_src(src, tab, n, cid, to)); }
    }
    if cpdt_src(src, tab, n, cid, to) {
        let m = choose|m: int| 0 <= m < n && m < src.len() && #[trigger] csrc_hit(src[m], tab, cid, to);
        assert(cpdt_src(src, tab, n + 1, cid, to));
    }
    if csrc_hit(src[n], tab, cid, to) { assert(cpdt_src(src, tab, n + 1, cid, to)); }
}

proof fn lemma_cpdt_src_all(d: DFA, tab: Seq<Ustr>, q: u32, src: Seq<(Ustr, u32)>, cid: u32, to: u32)
    requires forall|t: (Ustr, u32)| src.contains(t) <==> exists|id: InpId| #[trigger] compadd_entry(d, q, id, t)
    ensures cpdt_src(src, tab, src.len() as int, cid, to) == cpdt_cell(d, tab, q, cid, to)
{
    if cpdt_src(src, tab, src.len() as int, cid, to) {
        let m = choose|m: int| 0 <= m < src.len() && m < src.len() && #[trigger] csrc_hit(src[m], tab, cid, to);
        assert(src.contains(src[m]));
        let id = choose|id: InpId| #[trigger] compadd_entry(d, q, id, src[m]);
        assert(compadd_entry(d, q, id, src[m]));
    }
    if cpdt_cell(d, tab, q, cid, to) {
        let (id, t) = choose|id: InpId, t: (Ustr, u32)| #[trigger] compadd_entry(d, q, id, t) && cmd_key(tab, t.0, cid) && t.1 == to;
        assert(src.contains(t));
        let m = choose|m: int| 0 <= m < src.len() && src[m] == t;
        assert(csrc_hit(src[m], tab, cid, to));
    }
}

spec fn cpdt_table_upto(d: DFA, tab: Seq<Ustr>, tb: Map<u32, BTreeMap<u32, u32>>, states: Seq<u32>, n: int) -> bool {
    (forall|q: u32, cid: u32| #[trigger] tab_has(tb, q, cid) ==> in_first(states, n, q) && cpdt_cell(d, tab, q, cid, tb[q]@[cid]))
    && (forall|q: u32, cid: u32, to: u32| in_first(states, n, q) && #[trigger] cpdt_cell(d, tab, q, cid, to) ==> tab_has(tb, q, cid))
    && (forall|q: u32| #[trigger] tb.contains_key(q) ==> exists|cid: u32| tab_has(tb, q, cid))
}

} // verus!
verus! {

// ---- tables.rs: the tables handed to the printers ----

spec fn listed(all: Seq<(u32, Ustr, Ustr)>, lit: Ustr, descr: Ustr) -> bool {
    exists|k: int| 0 <= k < all.len() && (#[trigger] all[k]).1 == lit && all[k].2 == descr
}

spec fn star_tr(d: DFA, p: (u32, u32)) -> bool {
    exists|id: InpId| #[trigger] used(d, p.0, id) && 0 <= ix_of(id) < d.inputs@.len() && d.inputs@[ix_of(id)] is Star && d.transitions@[p.0][id] == p.1
}

/// the (text, description) -> id map collected from the literal list (later entries win)
spec fn idm_of(all: Seq<(u32, Ustr, Ustr)>) -> Map<(Ustr, Ustr), u32>
    decreases all.len()
{
    if all.len() == 0 { Map::empty() } else { idm_of(all.drop_last()).insert((all.last().1, all.last().2), all.last().0) }
}

proof fn lemma_idm_of_keys(all: Seq<(u32, Ustr, Ustr)>, lit: Ustr, descr: Ustr)
    ensures idm_of(all).contains_key((lit, descr)) == listed(all, lit, descr)
    decreases all.len()
{
    if all.len() > 0 {
        let init = all.drop_last();
        lemma_idm_of_keys(init, lit, descr);
        if listed(all, lit, descr) {
            let k = choose|k: int| 0 <= k < all.len() && (#[trigger] all[k]).1 == lit && all[k].2 == descr;
            if k < all.len() - 1 { assert(init[k] == all[k]); assert(listed(init, lit, descr)); }
        }
        if listed(init, lit, descr) {
            let k = choose|k: int| 0 <= k < init.len() && (#[trigger] init[k]).1 == lit && init[k].2 == descr;
            assert(all[k] == init[k]);
        }
        if all.last().1 == lit && all.last().2 == descr { assert(all[all.len() - 1] == all.last()); }
    }
}

/// the whole table set is what the getters prescribe for this automaton, the given command table and index base
spec fn tables_ok(d: DFA, cmds: Seq<Ustr>, needs_commands: bool, needs_compadds: bool, needs_star: bool, t: LookupTables) -> bool {
    let idm = idm_of(t.all_literals@);
    let max = t.completion_transitions.max_fallback_level;
    lits_known(d, idm)
    && match_lit_ok(d, idm, t.match_transitions.literal@)
    && (t.match_transitions.command is Some <==> needs_commands)
    && (t.match_transitions.compadd is Some <==> needs_compadds)
    && (t.match_transitions.star is Some <==> needs_star)
    && (needs_star ==> forall|p: (u32, u32)| (t.match_transitions.star->0)@.contains(p) <==> star_tr(d, p))
    && t.completion_transitions.literal@.len() == max + 1
    && (forall|l: int, q: u32, lid: u32| 0 <= l <= max ==> (#[trigger] has(t.completion_transitions.literal@[l], q, lid) <==> lit_compl(d, idm, l, q, lid)))
    && (t.completion_transitions.command is Some <==> needs_commands)
    && (t.completion_transitions.compadd is Some <==> needs_compadds)
    && (needs_commands ==> (t.completion_transitions.command->0)@.len() == max + 1
        && (forall|l: int, q: u32, cid: u32| 0 <= l <= max ==> (#[trigger] has((t.completion_transitions.command->0)@[l], q, cid) <==> cmd_compl(d, cmds, l, q, cid))))
    && (needs_compadds ==> (t.completion_transitions.compadd->0)@.len() == max + 1
        && (forall|l: int, q: u32, cid: usize| 0 <= l <= max ==> (#[trigger] hasv((t.completion_transitions.compadd->0)@[l], q, cid) <==> compadd_compl(d, cmds, l, q, cid))))
}

/// literal match table: exactly the literal cells of every state of the automaton
spec fn match_lit_ok(d: DFA, idm: Map<(Ustr, Ustr), u32>, tb: Map<u32, BTreeMap<u32, u32>>) -> bool {
    (forall|q: u32, lid: u32| #[trigger] tab_has(tb, q, lid) ==> lit_cell(d, idm, q, lid, tb[q]@[lid]))
    && (forall|q: u32, lid: u32, to: u32| #[trigger] lit_cell(d, idm, q, lid, to) ==> tab_has(tb, q, lid))
}

} // verus!
verus! {

spec fn match_cmd_ok(d: DFA, cmds: Seq<Ustr>, tb: Map<u32, BTreeMap<u32, u32>>) -> bool {
    (forall|q: u32, cid: u32| #[trigger] tab_has(tb, q, cid) ==> cmdt_cell(d, cmds, q, cid, tb[q]@[cid]))
    && (forall|q: u32, cid: u32, to: u32| #[trigger] cmdt_cell(d, cmds, q, cid, to) ==> tab_has(tb, q, cid))
}

spec fn match_cpd_ok(d: DFA, cmds: Seq<Ustr>, tb: Map<u32, BTreeMap<u32, u32>>) -> bool {
    (forall|q: u32, cid: u32| #[trigger] tab_has(tb, q, cid) ==> cpdt_cell(d, cmds, q, cid, tb[q]@[cid]))
    && (forall|q: u32, cid: u32, to: u32| #[trigger] cpdt_cell(d, cmds, q, cid, to) ==> tab_has(tb, q, cid))
}

/// every command / compadd on a transition is in the command table
spec fn cmds_all_known(d: DFA, cmds: Seq<Ustr>) -> bool {
    forall|x: Inp, c: Ustr| #[trigger] on_edge(d, x) && #[trigger] is_cmd(x, c) ==> has_key(cmds, c)
}

spec fn levels_small(d: DFA) -> bool {
    forall|x: Inp| #[trigger] on_edge(d, x) && level_of(x) is Some ==> level_of(x)->0 < usize::MAX
}

/// a source state of a transition is one of get_all_states' states
proof fn lemma_source_is_end(d: DFA, q: u32, id: InpId)
    requires used(d, q, id)
    ensures is_end(d, q)
{
}

proof fn lemma_empty_ustr_is_empty()
    ensures empty_ustr()@.len() == 0
{
    axiom_empty_ustr_exists();
}

/// the literal list covers the literal transitions: so does the map collected from it
proof fn lemma_lits_known(d: DFA, all: Seq<(u32, Ustr, Ustr)>)
    requires forall|q: u32, id: InpId, t: (Ustr, Ustr, u32)| #[trigger] lit_entry(d, q, id, t) ==> listed(all, t.0, t.1)
    ensures lits_known(d, idm_of(all))
{
    assert forall|q: u32, id: InpId, t: (Ustr, Ustr, u32)| #[trigger] lit_entry(d, q, id, t) implies idm_of(all).contains_key((t.0, t.1)) by {
        lemma_idm_of_keys(all, t.0, t.1);
    }
}

/// ... and every literal symbol has an id and, given the level bound, a slot
proof fn lemma_lits_ready(d: DFA, idm: Map<(Ustr, Ustr), u32>, max: int)
    requires
        dfa_wf(d), lits_known(d, idm),
        forall|x: Inp| #[trigger] on_edge(d, x) && level_of(x) is Some ==> level_of(x)->0 <= max,
    ensures lits_ready(d, idm, max)
{
    lemma_empty_ustr_is_empty();
    assert forall|q: u32, id: InpId| #[trigger] used(d, q, id) implies 0 <= ix_of(id) < d.inputs@.len() && match d.inputs@[ix_of(id)] {
        Inp::Literal { literal, description, fallback_level } => fallback_level <= max && (exists|lid: u32| lit_key(idm, literal, description, lid)),
        _ => true,
    } by {
        let x = d.inputs@[ix_of(id)];
        assert(on_edge(d, x));
        match x {
            Inp::Literal { literal, description, fallback_level } => {
                let t = (literal, descr_or_empty(description), d.transitions@[q][id]);
                assert(lit_entry(d, q, id, t));
                assert(lit_key(idm, literal, description, idm[(t.0, t.1)]));
            }
            _ => {}
        }
    }
}

proof fn lemma_cmds_ready(d: DFA, cmds: Seq<Ustr>, max: int)
    requires
        dfa_wf(d), cmds_all_known(d, cmds),
        forall|x: Inp| #[trigger] on_edge(d, x) && level_of(x) is Some ==> level_of(x)->0 <= max,
    ensures cmds_ready(d, cmds, max), compadds_ready(d, cmds, max), cmdts_known(d, cmds), cpdts_known(d, cmds)
{
    assert forall|q: u32, id: InpId| #[trigger] used(d, q, id) implies 0 <= ix_of(id) < d.inputs@.len() && (match d.inputs@[ix_of(id)] {
        Inp::Command { cmd, fallback_level } => fallback_level <= max && has_key(cmds, cmd),
        _ => true,
    }) && (match d.inputs@[ix_of(id)] {
        Inp::Compadd { cmd, fallback_level } => fallback_level <= max && has_key(cmds, cmd),
        _ => true,
    }) by {
        let x = d.inputs@[ix_of(id)];
        assert(on_edge(d, x));
        match x {
            Inp::Command { cmd, fallback_level } => { assert(is_cmd(x, cmd)); }
            Inp::Compadd { cmd, fallback_level } => { assert(is_cmd(x, cmd)); }
            _ => {}
        }
    }
    assert forall|q: u32, id: InpId, t: (Ustr, u32)| #[trigger] cmd_entry(d, q, id, t) implies has_key(cmds, t.0) by {
        let x = d.inputs@[ix_of(id)];
        assert(on_edge(d, x));
        assert(is_cmd(x, t.0));
    }
    assert forall|q: u32, id: InpId, t: (Ustr, u32)| #[trigger] compadd_entry(d, q, id, t) implies has_key(cmds, t.0) by {
        let x = d.inputs@[ix_of(id)];
        assert(on_edge(d, x));
        assert(is_cmd(x, t.0));
    }
}

} // verus!
verus! {

/// the within-word automaton id labels some transition
spec fn sub_on_edge(d: DFA, sid: DFAId) -> bool {
    exists|x: Inp| #[trigger] on_edge(d, x) && x is Subword && x->subdfa == sid
}

/// ids handed out so far: one per key, all different, from first_id up to (not including) next
spec fn ids_ok(tab: Map<DFAId, usize>, first_id: usize, next: usize) -> bool {
    (forall|k: DFAId| #[trigger] tab.contains_key(k) ==> first_id <= tab[k] < next)
    && (forall|a: DFAId, b: DFAId| tab.contains_key(a) && tab.contains_key(b) && #[trigger] tab[a] == #[trigger] tab[b] ==> a == b)
}

} // verus!
verus! {

/// the symbol id, if it is a within-word symbol, has its automaton in the table
spec fn sub_seen(d: DFA, tab: Map<DFAId, usize>, id: InpId) -> bool {
    0 <= ix_of(id) < d.inputs@.len() && (d.inputs@[ix_of(id)] is Subword ==> tab.contains_key(d.inputs@[ix_of(id)]->subdfa))
}

} // verus!
verus! {
spec fn r_has(tab: Map<DFAId, usize>, k: DFAId) -> bool { tab.contains_key(k) }
} // verus!
verus! {

/// the (text, description) pair of a literal symbol
spec fn lit_key_of(x: Inp) -> Option<(Ustr, Option<Ustr>)> {
    match x { Inp::Literal { literal, description, .. } => Some((literal, description)), _ => None }
}

/// t is the pair of a literal symbol among the first n of the pool
spec fn from_pool(pool: Seq<Inp>, n: int, t: (Ustr, Option<Ustr>)) -> bool {
    exists|i: int| 0 <= i < n && i < pool.len() && lit_key_of(#[trigger] pool[i]) == Some(t)
}

/// l holds exactly the pairs of the literal symbols among the first n of the pool
spec fn lits_of_pool(pool: Seq<Inp>, n: int, l: Seq<(Ustr, Option<Ustr>)>) -> bool {
    (forall|i: int| 0 <= i < n && i < pool.len() && lit_key_of(#[trigger] pool[i]) is Some ==> l.contains(lit_key_of(pool[i])->0))
    && (forall|j: int| 0 <= j < l.len() ==> from_pool(pool, n, #[trigger] l[j]))
}

/// one symbol of the pool handled: l1 is l0, or l0 with the symbol's pair appended when it was not there
proof fn lemma_lits_step(pool: Seq<Inp>, n: int, l0: Seq<(Ustr, Option<Ustr>)>, l1: Seq<(Ustr, Option<Ustr>)>)
    requires
        lits_of_pool(pool, n, l0), 0 <= n < pool.len(),
        lit_key_of(pool[n]) is None ==> l1 == l0,
        lit_key_of(pool[n]) is Some ==> (has_key(l0, lit_key_of(pool[n])->0) ==> l1 == l0) && (!has_key(l0, lit_key_of(pool[n])->0) ==> l1 == l0.push(lit_key_of(pool[n])->0)),
    ensures lits_of_pool(pool, n + 1, l1)
{
    assert forall|j: int| 0 <= j < l0.len() implies from_pool(pool, n + 1, #[trigger] l0[j]) by {
        assert(from_pool(pool, n, l0[j]));
        let i = choose|i: int| 0 <= i < n && i < pool.len() && lit_key_of(#[trigger] pool[i]) == Some(l0[j]);
        assert(lit_key_of(pool[i]) == Some(l0[j]));
    }
    if lit_key_of(pool[n]) is Some {
        let t = lit_key_of(pool[n])->0;
        assert(from_pool(pool, n + 1, t));
        assert(has_key(l0, t) == l0.contains(t)) by {
            if has_key(l0, t) { let i = choose|i: int| 0 <= i < l0.len() && key_eq(#[trigger] l0[i], t); axiom_litkey_eq(l0[i], t); }
            if l0.contains(t) { let i = choose|i: int| 0 <= i < l0.len() && l0[i] == t; axiom_litkey_eq(l0[i], t); assert(key_eq(l0[i], t)); }
        }
        assert forall|i: int| 0 <= i < n + 1 && i < pool.len() && lit_key_of(#[trigger] pool[i]) is Some implies l1.contains(lit_key_of(pool[i])->0) by {
            if i < n {
                assert(l0.contains(lit_key_of(pool[i])->0));
                let j = choose|j: int| 0 <= j < l0.len() && l0[j] == lit_key_of(pool[i])->0;
                assert(l1[j] == l0[j]);
            } else if l0.contains(t) {
                let j = choose|j: int| 0 <= j < l0.len() && l0[j] == t;
                assert(l1[j] == t);
            } else { assert(l1[l0.len() as int] == t); }
        }
        assert forall|j: int| 0 <= j < l1.len() implies from_pool(pool, n + 1, #[trigger] l1[j]) by {
            if j < l0.len() { assert(l1[j] == l0[j]); }
        }
    }
}

/// sorting and reversing keep the list a list of the same pairs, now longest first
proof fn lemma_lits_perm(pool: Seq<Inp>, l0: Seq<(Ustr, Option<Ustr>)>, l1: Seq<(Ustr, Option<Ustr>)>, l2: Seq<(Ustr, Option<Ustr>)>)
    requires
        lits_of_pool(pool, pool.len() as int, l0),
        l1.len() == l0.len(), forall|t: (Ustr, Option<Ustr>)| l1.contains(t) <==> l0.contains(t),
        forall|i: int, j: int| 0 <= i < j < l1.len() ==> ustr_blen((#[trigger] l1[i]).0) <= ustr_blen((#[trigger] l1[j]).0),
        l2 == l1.reverse(),
    ensures
        lits_of_pool(pool, pool.len() as int, l2), l2.len() == l0.len(),
        forall|i: int, j: int| 0 <= i < j < l2.len() ==> ustr_blen((#[trigger] l2[i]).0) >= ustr_blen((#[trigger] l2[j]).0),
{
    let n = l1.len() as int;
    assert forall|t: (Ustr, Option<Ustr>)| l2.contains(t) <==> l1.contains(t) by {
        if l2.contains(t) { let j = choose|j: int| 0 <= j < l2.len() && l2[j] == t; assert(l1[n - 1 - j] == t); }
        if l1.contains(t) { let j = choose|j: int| 0 <= j < l1.len() && l1[j] == t; assert(l2[n - 1 - j] == t); }
    }
    assert forall|i: int| 0 <= i < pool.len() && lit_key_of(#[trigger] pool[i]) is Some implies l2.contains(lit_key_of(pool[i])->0) by {
        assert(l0.contains(lit_key_of(pool[i])->0));
    }
    assert forall|j: int| 0 <= j < l2.len() implies from_pool(pool, pool.len() as int, #[trigger] l2[j]) by {
        assert(l2.contains(l2[j]));
        assert(l0.contains(l2[j]));
        let k = choose|k: int| 0 <= k < l0.len() && l0[k] == l2[j];
        assert(from_pool(pool, pool.len() as int, l0[k]));
    }
    assert forall|i: int, j: int| 0 <= i < j < l2.len() implies ustr_blen((#[trigger] l2[i]).0) >= ustr_blen((#[trigger] l2[j]).0) by {
        assert(l2[i] == l1[n - 1 - i] && l2[j] == l1[n - 1 - j]);
    }
}

} // verus!
verus! {

/// the transition e is an any-word transition joining the pair p
spec fn star_at(d: DFA, e: (u32, InpId, u32), p: (u32, u32)) -> bool {
    0 <= ix_of(e.1) < d.inputs@.len() && d.inputs@[ix_of(e.1)] is Star && p == (e.0, e.2)
}

} // verus!
verus! {

/// x is a within-word symbol whose automaton is s
spec fn sub_at(d: DFA, x: Inp, s: DFA) -> bool {
    x is Subword && 0 <= dfa_ix(x->subdfa) < d.subdfas.store@.len() && d.subdfas.store@[dfa_ix(x->subdfa)] == s
}

} // verus!
verus! {

/// s is the automaton of one of the first n symbols of src
spec fn sub_src(d: DFA, src: Seq<&Inp>, n: int, s: DFA) -> bool {
    exists|k: int| 0 <= k < n && k < src.len() && sub_at(d, *(#[trigger] src[k]), s)
}

/// the automaton of the within-word symbol x is in out
spec fn out_has(d: DFA, out: Seq<&DFA>, x: Inp) -> bool {
    exists|j: int| 0 <= j < out.len() && sub_at(d, x, *(#[trigger] out[j]))
}

spec fn subs_inv(d: DFA, src: Seq<&Inp>, n: int, out: Seq<&DFA>) -> bool {
    (forall|j: int| 0 <= j < out.len() ==> sub_src(d, src, n, *(#[trigger] out[j])))
    && (forall|k: int| 0 <= k < n && k < src.len() && (*(#[trigger] src[k])) is Subword ==> out_has(d, out, *src[k]))
}

proof fn lemma_subs_skip(d: DFA, src: Seq<&Inp>, n: int, out: Seq<&DFA>)
    requires subs_inv(d, src, n, out), 0 <= n < src.len(), !((*src[n]) is Subword)
    ensures subs_inv(d, src, n + 1, out)
{
    assert forall|j: int| 0 <= j < out.len() implies sub_src(d, src, n + 1, *(#[trigger] out[j])) by {
        assert(sub_src(d, src, n, *out[j]));
        let k = choose|k: int| 0 <= k < n && k < src.len() && sub_at(d, *(#[trigger] src[k]), *out[j]);
        assert(sub_at(d, *src[k], *out[j]));
    }
}

proof fn lemma_subs_push(d: DFA, src: Seq<&Inp>, n: int, out: Seq<&DFA>, s: &DFA)
    requires subs_inv(d, src, n, out), 0 <= n < src.len(), sub_at(d, *src[n], *s)
    ensures subs_inv(d, src, n + 1, out.push(s))
{
    let o2 = out.push(s);
    assert forall|j: int| 0 <= j < o2.len() implies sub_src(d, src, n + 1, *(#[trigger] o2[j])) by {
        if j < out.len() {
            assert(sub_src(d, src, n, *out[j]));
            let k = choose|k: int| 0 <= k < n && k < src.len() && sub_at(d, *(#[trigger] src[k]), *out[j]);
            assert(sub_at(d, *src[k], *o2[j]));
        } else { assert(sub_at(d, *src[n], *o2[j])); }
    }
    assert forall|k: int| 0 <= k < n + 1 && k < src.len() && (*(#[trigger] src[k])) is Subword implies out_has(d, o2, *src[k]) by {
        if k < n {
            assert(out_has(d, out, *src[k]));
            let j = choose|j: int| 0 <= j < out.len() && sub_at(d, *src[k], *(#[trigger] out[j]));
            assert(sub_at(d, *src[k], *o2[j]));
        } else { assert(sub_at(d, *src[k], *o2[out.len() as int])); }
    }
}

} // verus!
