// C04 / C06: what the DFA getters (the functions the table builders and the emitters read the
// automaton through) return, stated over the automaton's own fields.
verus! {

/// state q has a transition on the symbol id
spec fn used(d: DFA, q: u32, id: InpId) -> bool {
    d.transitions@.contains_key(q) && d.transitions@[q].contains_key(id)
}

/// every symbol id of the table is an index of the symbol pool
spec fn dfa_wf(d: DFA) -> bool {
    forall|q: u32, id: InpId| #[trigger] used(d, q, id) ==> 0 <= ix_of(id) < d.inputs@.len()
}

/// every within-word symbol of the pool names an automaton of the automaton pool
spec fn subs_wf(d: DFA) -> bool {
    forall|i: int| 0 <= i < d.inputs@.len() ==> ((#[trigger] d.inputs@[i]) is Subword ==> 0 <= dfa_ix(d.inputs@[i]->subdfa) < d.subdfas.store@.len())
}

/// x labels some transition
spec fn on_edge(d: DFA, x: Inp) -> bool {
    exists|q: u32, id: InpId| #[trigger] used(d, q, id) && 0 <= ix_of(id) < d.inputs@.len() && d.inputs@[ix_of(id)] == x
}

/// s is the within-word automaton of some transition
spec fn is_subword_of(d: DFA, s: DFA) -> bool {
    exists|x: Inp| #[trigger] on_edge(d, x) && x is Subword && 0 <= dfa_ix(x->subdfa) < d.subdfas.store@.len() && d.subdfas.store@[dfa_ix(x->subdfa)] == s
}

spec fn has_command(d: DFA) -> bool { exists|x: Inp| #[trigger] on_edge(d, x) && x is Command }
spec fn has_compadd(d: DFA) -> bool { exists|x: Inp| #[trigger] on_edge(d, x) && x is Compadd }
spec fn has_star(d: DFA) -> bool { exists|x: Inp| #[trigger] on_edge(d, x) && x is Star }

/// the within-word automata are well-formed too (one level: they hold no further automata)
spec fn subs_ok(d: DFA) -> bool {
    forall|s: DFA| #[trigger] is_subword_of(d, s) ==> dfa_wf(s)
}

} // verus!
verus! {

/// the tuple get_literal_transitions_from reports for the transition (from, id)
spec fn lit_entry(d: DFA, from: u32, id: InpId, t: (Ustr, Ustr, u32)) -> bool {
    used(d, from, id) && 0 <= ix_of(id) < d.inputs@.len() && match d.inputs@[ix_of(id)] {
        Inp::Literal { literal, description, fallback_level } => t.0 == literal && t.2 == d.transitions@[from][id]
            && (match description { Some(x) => t.1 == x, None => t.1@.len() == 0 }),
        _ => false,
    }
}

spec fn cmd_entry(d: DFA, from: u32, id: InpId, t: (Ustr, u32)) -> bool {
    used(d, from, id) && 0 <= ix_of(id) < d.inputs@.len() && match d.inputs@[ix_of(id)] {
        Inp::Command { cmd, fallback_level } => t.0 == cmd && t.1 == d.transitions@[from][id],
        _ => false,
    }
}

spec fn compadd_entry(d: DFA, from: u32, id: InpId, t: (Ustr, u32)) -> bool {
    used(d, from, id) && 0 <= ix_of(id) < d.inputs@.len() && match d.inputs@[ix_of(id)] {
        Inp::Compadd { cmd, fallback_level } => t.0 == cmd && t.1 == d.transitions@[from][id],
        _ => false,
    }
}

spec fn sub_entry(d: DFA, from: u32, id: InpId, t: (DFAId, u32)) -> bool {
    used(d, from, id) && 0 <= ix_of(id) < d.inputs@.len() && match d.inputs@[ix_of(id)] {
        Inp::Subword { subdfa, fallback_level } => t.0 == subdfa && t.1 == d.transitions@[from][id],
        _ => false,
    }
}

} // verus!
verus! {

/// s is the source or the target of some transition
spec fn is_end(d: DFA, s: u32) -> bool {
    exists|q: u32, id: InpId| #[trigger] used(d, q, id) && (q == s || d.transitions@[q][id] == s)
}

} // verus!
verus! {

/// the symbol runs the external command c (as a command or as a zsh compadd)
spec fn is_cmd(x: Inp, c: Ustr) -> bool {
    match x {
        Inp::Command { cmd, fallback_level } => cmd == c,
        Inp::Compadd { cmd, fallback_level } => cmd == c,
        _ => false,
    }
}

spec fn top_cmd(d: DFA, c: Ustr) -> bool { exists|x: Inp| #[trigger] on_edge(d, x) && is_cmd(x, c) }

spec fn sub_cmd(d: DFA, c: Ustr) -> bool { exists|s: DFA| #[trigger] is_subword_of(d, s) && top_cmd(s, c) }

/// what one transition symbol of d contributes to the command table
spec fn contrib(d: DFA, x: Inp, c: Ustr) -> bool {
    is_cmd(x, c) || (x is Subword && 0 <= dfa_ix(x->subdfa) < d.subdfas.store@.len() && top_cmd(d.subdfas.store@[dfa_ix(x->subdfa)], c))
}

spec fn contrib_upto(d: DFA, ins: Seq<&Inp>, n: int, c: Ustr) -> bool {
    exists|m: int| 0 <= m < n && m < ins.len() && #[trigger] contrib(d, *ins[m], c)
}

spec fn cmd_upto(ins: Seq<&Inp>, n: int, c: Ustr) -> bool {
    exists|m: int| 0 <= m < n && m < ins.len() && #[trigger] is_cmd(*ins[m], c)
}

} // verus!
verus! {

proof fn lemma_contrib_step(d: DFA, ins: Seq<&Inp>, n: int, c: Ustr)
    requires 0 <= n < ins.len()
    ensures contrib_upto(d, ins, n + 1, c) == (contrib_upto(d, ins, n, c) || contrib(d, *ins[n], c))
{
    if contrib_upto(d, ins, n + 1, c) {
        let m = choose|m: int| 0 <= m < n + 1 && m < ins.len() && #[trigger] contrib(d, *ins[m], c);
        if m < n { assert(contrib_upto(d, ins, n, c)); }
    }
    if contrib_upto(d, ins, n, c) {
        let m = choose|m: int| 0 <= m < n && m < ins.len() && #[trigger] contrib(d, *ins[m], c);
        assert(contrib_upto(d, ins, n + 1, c));
    }
    if contrib(d, *ins[n], c) { assert(contrib_upto(d, ins, n + 1, c)); }
}

proof fn lemma_cmd_step(ins: Seq<&Inp>, n: int, c: Ustr)
    requires 0 <= n < ins.len()
    ensures cmd_upto(ins, n + 1, c) == (cmd_upto(ins, n, c) || is_cmd(*ins[n], c))
{
    if cmd_upto(ins, n + 1, c) {
        let m = choose|m: int| 0 <= m < n + 1 && m < ins.len() && #[trigger] is_cmd(*ins[m], c);
        if m < n { assert(cmd_upto(ins, n, c)); }
    }
    if cmd_upto(ins, n, c) {
        let m = choose|m: int| 0 <= m < n && m < ins.len() && #[trigger] is_cmd(*ins[m], c);
        assert(cmd_upto(ins, n + 1, c));
    }
    if is_cmd(*ins[n], c) { assert(cmd_upto(ins, n + 1, c)); }
}

/// all symbols of the vector scanned = the symbols on the edges
proof fn lemma_cmd_all(d: DFA, ins: Seq<&Inp>, c: Ustr)
    requires
        forall|k: int| 0 <= k < ins.len() ==> on_edge(d, *(#[trigger] ins[k])),
        forall|x: Inp| on_edge(d, x) ==> exists|k: int| 0 <= k < ins.len() && *(#[trigger] ins[k]) == x,
    ensures cmd_upto(ins, ins.len() as int, c) == top_cmd(d, c)
{
    if cmd_upto(ins, ins.len() as int, c) {
        let m = choose|m: int| 0 <= m < ins.len() && m < ins.len() && #[trigger] is_cmd(*ins[m], c);
        assert(on_edge(d, *ins[m]));
    }
    if top_cmd(d, c) {
        let x = choose|x: Inp| #[trigger] on_edge(d, x) && is_cmd(x, c);
        let k = choose|k: int| 0 <= k < ins.len() && *(#[trigger] ins[k]) == x;
        assert(is_cmd(*ins[k], c));
    }
}

proof fn lemma_contrib_all(d: DFA, ins: Seq<&Inp>, c: Ustr)
    requires
        forall|k: int| 0 <= k < ins.len() ==> on_edge(d, *(#[trigger] ins[k])),
        forall|x: Inp| on_edge(d, x) ==> exists|k: int| 0 <= k < ins.len() && *(#[trigger] ins[k]) == x,
    ensures contrib_upto(d, ins, ins.len() as int, c) == (top_cmd(d, c) || sub_cmd(d, c))
{
    if contrib_upto(d, ins, ins.len() as int, c) {
        let m = choose|m: int| 0 <= m < ins.len() && m < ins.len() && #[trigger] contrib(d, *ins[m], c);
        let x = *ins[m];
        assert(on_edge(d, x));
        if !is_cmd(x, c) {
            let s = d.subdfas.store@[dfa_ix(x->subdfa)];
            assert(is_subword_of(d, s));
            assert(sub_cmd(d, c));
        }
    }
    if top_cmd(d, c) {
        let x = choose|x: Inp| #[trigger] on_edge(d, x) && is_cmd(x, c);
        let k = choose|k: int| 0 <= k < ins.len() && *(#[trigger] ins[k]) == x;
        assert(contrib(d, *ins[k], c));
    }
    if sub_cmd(d, c) {
        let s = choose|s: DFA| #[trigger] is_subword_of(d, s) && top_cmd(s, c);
        let x = choose|x: Inp| #[trigger] on_edge(d, x) && x is Subword && 0 <= dfa_ix(x->subdfa) < d.subdfas.store@.len() && d.subdfas.store@[dfa_ix(x->subdfa)] == s;
        let k = choose|k: int| 0 <= k < ins.len() && *(#[trigger] ins[k]) == x;
        assert(contrib(d, *ins[k], c));
    }
}

} // verus!
verus! {

/// the id the literal table gives to (text, description -- or the empty string when there is none)
spec fn lit_key(idm: Map<(Ustr, Ustr), u32>, lit: Ustr, descr: Option<Ustr>, lid: u32) -> bool {
    idm.contains_key((lit, descr_or_empty(descr))) && idm[(lit, descr_or_empty(descr))] == lid
}

/// the interned empty string
spec fn empty_ustr() -> Ustr { choose|e: Ustr| e@ =~= Seq::<char>::empty() }

spec fn descr_or_empty(descr: Option<Ustr>) -> Ustr {
    match descr { Some(d) => d, None => empty_ustr() }
}

proof fn lemma_empty_ustr(e: Ustr)
    requires e@.len() == 0
    ensures e == empty_ustr()
{
    assert(e@ =~= Seq::<char>::empty());
    assert(empty_ustr()@ =~= e@);
    axiom_ustr_interned(e.id, empty_ustr().id);
}

/// transition tr offers the literal with id lid at level l from state q
spec fn tr_lit(d: DFA, idm: Map<(Ustr, Ustr), u32>, tr: (u32, InpId, u32), l: int, q: u32, lid: u32) -> bool {
    tr.0 == q && 0 <= ix_of(tr.1) < d.inputs@.len() && match d.inputs@[ix_of(tr.1)] {
        Inp::Literal { literal, description, fallback_level } => fallback_level == l && lit_key(idm, literal, description, lid),
        _ => false,
    }
}

spec fn lit_compl(d: DFA, idm: Map<(Ustr, Ustr), u32>, l: int, q: u32, lid: u32) -> bool {
    exists|id: InpId| #[trigger] used(d, q, id) && tr_lit(d, idm, (q, id, d.transitions@[q][id]), l, q, lid)
}

spec fn lit_upto(d: DFA, idm: Map<(Ustr, Ustr), u32>, trs: Seq<(u32, InpId, u32)>, n: int, l: int, q: u32, lid: u32) -> bool {
    exists|m: int| 0 <= m < n && m < trs.len() && #[trigger] tr_lit(d, idm, trs[m], l, q, lid)
}

/// every literal on a transition is in the table and its level has a slot
spec fn lits_ready(d: DFA, idm: Map<(Ustr, Ustr), u32>, max: int) -> bool {
    forall|q: u32, id: InpId| #[trigger] used(d, q, id) ==> 0 <= ix_of(id) < d.inputs@.len() && match d.inputs@[ix_of(id)] {
        Inp::Literal { literal, description, fallback_level } => fallback_level <= max && (exists|lid: u32| lit_key(idm, literal, description, lid)),
        _ => true,
    }
}

proof fn lemma_lit_step(d: DFA, idm: Map<(Ustr, Ustr), u32>, trs: Seq<(u32, InpId, u32)>, n: int, l: int, q: u32, lid: u32)
    requires 0 <= n < trs.len()
    ensures lit_upto(d, idm, trs, n + 1, l, q, lid) == (lit_upto(d, idm, trs, n, l, q, lid) || tr_lit(d, idm, trs[n], l, q, lid))
{
    if lit_upto(d, idm, trs, n + 1, l, q, lid) {
        let m = choose|m: int| 0 <= m < n + 1 && m < trs.len() && #[trigger] tr_lit(d, idm, trs[m], l, q, lid);
        if m < n { assert(lit_upto(d, idm, trs, n, l, q, lid)); }
    }
    if lit_upto(d, idm, trs, n, l, q, lid) {
        let m = choose|m: int| 0 <= m < n && m < trs.len() && #[trigger] tr_lit(d, idm, trs[m], l, q, lid);
        assert(lit_upto(d, idm, trs, n + 1, l, q, lid));
    }
    if tr_lit(d, idm, trs[n], l, q, lid) { assert(lit_upto(d, idm, trs, n + 1, l, q, lid)); }
}

proof fn lemma_lit_all(d: DFA, idm: Map<(Ustr, Ustr), u32>, trs: Seq<(u32, InpId, u32)>, l: int, q: u32, lid: u32)
    requires
        forall|k: int| 0 <= k < trs.len() ==> used(d, (#[trigger] trs[k]).0, trs[k].1) && d.transitions@[trs[k].0][trs[k].1] == trs[k].2,
        forall|q2: u32, id: InpId| #[trigger] used(d, q2, id) ==> exists|k: int| 0 <= k < trs.len() && #[trigger] trs[k] == (q2, id, d.transitions@[q2][id]),
    ensures lit_upto(d, idm, trs, trs.len() as int, l, q, lid) == lit_compl(d, idm, l, q, lid)
{
    if lit_upto(d, idm, trs, trs.len() as int, l, q, lid) {
        let m = choose|m: int| 0 <= m < trs.len() && m < trs.len() && #[trigger] tr_lit(d, idm, trs[m], l, q, lid);
        assert(used(d, trs[m].0, trs[m].1));
        assert(trs[m] == (q, trs[m].1, d.transitions@[q][trs[m].1]));
    }
    if lit_compl(d, idm, l, q, lid) {
        let id = choose|id: InpId| #[trigger] used(d, q, id) && tr_lit(d, idm, (q, id, d.transitions@[q][id]), l, q, lid);
        let k = choose|k: int| 0 <= k < trs.len() && #[trigger] trs[k] == (q, id, d.transitions@[q][id]);
        assert(tr_lit(d, idm, trs[k], l, q, lid));
    }
}

} // verus!
verus! {

/// cid is the (32-bit) index of cmd in the command table
spec fn cmd_key(tab: Seq<Ustr>, cmd: Ustr, cid: u32) -> bool {
    exists|i: int| 0 <= i < tab.len() && #[trigger] tab[i] == cmd && cid == i as u32
}

spec fn tr_cmd(d: DFA, tab: Seq<Ustr>, tr: (u32, InpId, u32), l: int, q: u32, cid: u32) -> bool {
    tr.0 == q && 0 <= ix_of(tr.1) < d.inputs@.len() && match d.inputs@[ix_of(tr.1)] {
        Inp::Command { cmd, fallback_level } => fallback_level == l && cmd_key(tab, cmd, cid),
        _ => false,
    }
}

spec fn cmd_compl(d: DFA, tab: Seq<Ustr>, l: int, q: u32, cid: u32) -> bool {
    exists|id: InpId| #[trigger] used(d, q, id) && tr_cmd(d, tab, (q, id, d.transitions@[q][id]), l, q, cid)
}

spec fn cmd_tr_upto(d: DFA, tab: Seq<Ustr>, trs: Seq<(u32, InpId, u32)>, n: int, l: int, q: u32, cid: u32) -> bool {
    exists|m: int| 0 <= m < n && m < trs.len() && #[trigger] tr_cmd(d, tab, trs[m], l, q, cid)
}

/// every command on a transition is in the table and its level has a slot
spec fn cmds_ready(d: DFA, tab: Seq<Ustr>, max: int) -> bool {
    forall|q: u32, id: InpId| #[trigger] used(d, q, id) ==> 0 <= ix_of(id) < d.inputs@.len() && match d.inputs@[ix_of(id)] {
        Inp::Command { cmd, fallback_level } => fallback_level <= max && has_key(tab, cmd),
        _ => true,
    }
}

proof fn lemma_cmd_tr_step(d: DFA, tab: Seq<Ustr>, trs: Seq<(u32, InpId, u32)>, n: int, l: int, q: u32, cid: u32)
    requires 0 <= n < trs.len()
    ensures cmd_tr_upto(d, tab, trs, n + 1, l, q, cid) == (cmd_tr_upto(d, tab, trs, n, l, q, cid) || tr_cmd(d, tab, trs[n], l, q, cid))
{
    if cmd_tr_upto(d, tab, trs, n + 1, l, q, cid) {
        let m = choose|m: int| 0 <= m < n + 1 && m < trs.len() && #[trigger] tr_cmd(d, tab, trs[m], l, q, cid);
        if m < n { assert(cmd_tr_upto(d, tab, trs, n, l, q, cid)); }
    }
    if cmd_tr_upto(d, tab, trs, n, l, q, cid) {
        let m = choose|m: int| 0 <= m < n && m < trs.len() && #[trigger] tr_cmd(d, tab, trs[m], l, q, cid);
        assert(cmd_tr_upto(d, tab, trs, n + 1, l, q, cid));
    }
    if tr_cmd(d, tab, trs[n], l, q, cid) { assert(cmd_tr_upto(d, tab, trs, n + 1, l, q, cid)); }
}

proof fn lemma_cmd_tr_all(d: DFA, tab: Seq<Ustr>, trs: Seq<(u32, InpId, u32)>, l: int, q: u32, cid: u32)
    requires
        forall|k: int| 0 <= k < trs.len() ==> used(d, (#[trigger] trs[k]).0, trs[k].1) && d.transitions@[trs[k].0][trs[k].1] == trs[k].2,
        forall|q2: u32, id: InpId| #[trigger] used(d, q2, id) ==> exists|k: int| 0 <= k < trs.len() && #[trigger] trs[k] == (q2, id, d.transitions@[q2][id]),
    ensures cmd_tr_upto(d, tab, trs, trs.len() as int, l, q, cid) == cmd_compl(d, tab, l, q, cid)
{
    if cmd_tr_upto(d, tab, trs, trs.len() as int, l, q, cid) {
        let m = choose|m: int| 0 <= m < trs.len() && m < trs.len() && #[trigger] tr_cmd(d, tab, trs[m], l, q, cid);
        assert(used(d, trs[m].0, trs[m].1));
        assert(trs[m] == (q, trs[m].1, d.transitions@[q][trs[m].1]));
    }
    if cmd_compl(d, tab, l, q, cid) {
        let id = choose|id: InpId| #[trigger] used(d, q, id) && tr_cmd(d, tab, (q, id, d.transitions@[q][id]), l, q, cid);
        let k = choose|k: int| 0 <= k < trs.len() && #[trigger] trs[k] == (q, id, d.transitions@[q][id]);
        assert(tr_cmd(d, tab, trs[k], l, q, cid));
    }
}

/// in a table of pairwise different commands the index of a command is unique
proof fn lemma_cmd_key_unique(tab: Seq<Ustr>, cmd: Ustr, i: int, cid: u32)
    requires
        0 <= i < tab.len(), tab[i] == cmd, tab.len() <= u32::MAX,
        forall|a: int, b: int| 0 <= a < b < tab.len() ==> tab[a] != tab[b],
    ensures cmd_key(tab, cmd, cid) == (cid == i as u32)
{
    if cmd_key(tab, cmd, cid) {
        let j = choose|j: int| 0 <= j < tab.len() && #[trigger] tab[j] == cmd && cid == j as u32;
        if j < i { assert(tab[j] != tab[i]); }
        if i < j { assert(tab[i] != tab[j]); }
    }
}

} // verus!
verus! {

/// the index of cmd in the command table
spec fn cmd_ix(tab: Seq<Ustr>, cmd: Ustr, cid: usize) -> bool {
    exists|i: int| 0 <= i < tab.len() && #[trigger] tab[i] == cmd && cid == i
}

spec fn tr_compadd(d: DFA, tab: Seq<Ustr>, tr: (u32, InpId, u32), l: int, q: u32, cid: usize) -> bool {
    tr.0 == q && 0 <= ix_of(tr.1) < d.inputs@.len() && match d.inputs@[ix_of(tr.1)] {
        Inp::Compadd { cmd, fallback_level } => fallback_level == l && cmd_ix(tab, cmd, cid),
        _ => false,
    }
}

spec fn compadd_compl(d: DFA, tab: Seq<Ustr>, l: int, q: u32, cid: usize) -> bool {
    exists|id: InpId| #[trigger] used(d, q, id) && tr_compadd(d, tab, (q, id, d.transitions@[q][id]), l, q, cid)
}

spec fn compadd_upto(d: DFA, tab: Seq<Ustr>, trs: Seq<(u32, InpId, u32)>, n: int, l: int, q: u32, cid: usize) -> bool {
    exists|m: int| 0 <= m < n && m < trs.len() && #[trigger] tr_compadd(d, tab, trs[m], l, q, cid)
}

spec fn compadds_ready(d: DFA, tab: Seq<Ustr>, max: int) -> bool {
    forall|q: u32, id: InpId| #[trigger] used(d, q, id) ==> 0 <= ix_of(id) < d.inputs@.len() && match d.inputs@[ix_of(id)] {
        Inp::Compadd { cmd, fallback_level } => fallback_level <= max && has_key(tab, cmd),
        _ => true,
    }
}

proof fn lemma_compadd_step(d: DFA, tab: Seq<Ustr>, trs: Seq<(u32, InpId, u32)>, n: int, l: int, q: u32, cid: usize)
    requires 0 <= n < trs.len()
    ensures compadd_upto(d, tab, trs, n + 1, l, q, cid) == (compadd_upto(d, tab, trs, n, l, q, cid) || tr_compadd(d, tab, trs[n], l, q, cid))
{
    if compadd_upto(d, tab, trs, n + 1, l, q, cid) {
        let m = choose|m: int| 0 <= m < n + 1 && m < trs.len() && #[trigger] tr_compadd(d, tab, trs[m], l, q, cid);
        if m < n { assert(compadd_upto(d, tab, trs, n, l, q, cid)); }
    }
    if compadd_upto(d, tab, trs, n, l, q, cid) {
        let m = choose|m: int| 0 <= m < n && m < trs.len() && #[trigger] tr_compadd(d, tab, trs[m], l, q, cid);
        assert(compadd_upto(d, tab, trs, n + 1, l, q, cid));
    }
    if tr_compadd(d, tab, trs[n], l, q, cid) { assert(compadd_upto(d, tab, trs, n + 1, l, q, cid)); }
}

proof fn lemma_compadd_all(d: DFA, tab: Seq<Ustr>, trs: Seq<(u32, InpId, u32)>, l: int, q: u32, cid: usize)
    requires
        forall|k: int| 0 <= k < trs.len() ==> used(d, (#[trigger] trs[k]).0, trs[k].1) && d.transitions@[trs[k].0][trs[k].1] == trs[k].2,
        forall|q2: u32, id: InpId| #[trigger] used(d, q2, id) ==> exists|k: int| 0 <= k < trs.len() && #[trigger] trs[k] == (q2, id, d.transitions@[q2][id]),
    ensures compadd_upto(d, tab, trs, trs.len() as int, l, q, cid) == compadd_compl(d, tab, l, q, cid)
{
    if compadd_upto(d, tab, trs, trs.len() as int, l, q, cid) {
        let m = choose|m: int| 0 <= m < trs.len() && m < trs.len() && #[trigger] tr_compadd(d, tab, trs[m], l, q, cid);
        assert(used(d, trs[m].0, trs[m].1));
        assert(trs[m] == (q, trs[m].1, d.transitions@[q][trs[m].1]));
    }
    if compadd_compl(d, tab, l, q, cid) {
        let id = choose|id: InpId| #[trigger] used(d, q, id) && tr_compadd(d, tab, (q, id, d.transitions@[q][id]), l, q, cid);
        let k = choose|k: int| 0 <= k < trs.len() && #[trigger] trs[k] == (q, id, d.transitions@[q][id]);
        assert(tr_compadd(d, tab, trs[k], l, q, cid));
    }
}

proof fn lemma_cmd_ix_unique(tab: Seq<Ustr>, cmd: Ustr, i: int, cid: usize)
    requires
        0 <= i < tab.len(), tab[i] == cmd,
        forall|a: int, b: int| 0 <= a < b < tab.len() ==> tab[a] != tab[b],
    ensures cmd_ix(tab, cmd, cid) == (cid == i)
{
    if cmd_ix(tab, cmd, cid) {
        let j = choose|j: int| 0 <= j < tab.len() && #[trigger] tab[j] == cmd && cid == j;
        if j < i { assert(tab[j] != tab[i]); }
        if i < j { assert(tab[i] != tab[j]); }
    }
}

// ---- within-word automata per level ----
spec fn tr_sub(d: DFA, idm: Map<DFAId, usize>, tr: (u32, InpId, u32), l: int, q: u32, sidx: usize) -> bool {
    tr.0 == q && 0 <= ix_of(tr.1) < d.inputs@.len() && match d.inputs@[ix_of(tr.1)] {
        Inp::Subword { subdfa, fallback_level } => fallback_level == l && idm.contains_key(subdfa) && idm[subdfa] == sidx,
        _ => false,
    }
}

spec fn sub_compl(d: DFA, idm: Map<DFAId, usize>, l: int, q: u32, sidx: usize) -> bool {
    exists|id: InpId| #[trigger] used(d, q, id) && tr_sub(d, idm, (q, id, d.transitions@[q][id]), l, q, sidx)
}

spec fn sub_upto(d: DFA, idm: Map<DFAId, usize>, trs: Seq<(u32, InpId, u32)>, n: int, l: int, q: u32, sidx: usize) -> bool {
    exists|m: int| 0 <= m < n && m < trs.len() && #[trigger] tr_sub(d, idm, trs[m], l, q, sidx)
}

spec fn subs_ready(d: DFA, idm: Map<DFAId, usize>, max: int) -> bool {
    forall|q: u32, id: InpId| #[trigger] used(d, q, id) ==> 0 <= ix_of(id) < d.inputs@.len() && match d.inputs@[ix_of(id)] {
        Inp::Subword { subdfa, fallback_level } => fallback_level <= max && idm.contains_key(subdfa),
        _ => true,
    }
}

proof fn lemma_sub_step(d: DFA, idm: Map<DFAId, usize>, trs: Seq<(u32, InpId, u32)>, n: int, l: int, q: u32, sidx: usize)
    requires 0 <= n < trs.len()
    ensures sub_upto(d, idm, trs, n + 1, l, q, sidx) == (sub_upto(d, idm, trs, n, l, q, sidx) || tr_sub(d, idm, trs[n], l, q, sidx))
{
    if sub_upto(d, idm, trs, n + 1, l, q, sidx) {
        let m = choose|m: int| 0 <= m < n + 1 && m < trs.len() && #[trigger] tr_sub(d, idm, trs[m], l, q, sidx);
        if m < n { assert(sub_upto(d, idm, trs, n, l, q, sidx)); }
    }
    if sub_upto(d, idm, trs, n, l, q, sidx) {
        let m = choose|m: int| 0 <= m < n && m < trs.len() && #[trigger] tr_sub(d, idm, trs[m], l, q, sidx);
        assert(sub_upto(d, idm, trs, n + 1, l, q, sidx));
    }
    if tr_sub(d, idm, trs[n], l, q, sidx) { assert(sub_upto(d, idm, trs, n + 1, l, q, sidx)); }
}

proof fn lemma_sub_all(d: DFA, idm: Map<DFAId, usize>, trs: Seq<(u32, InpId, u32)>, l: int, q: u32, sidx: usize)
    requires
        forall|k: int| 0 <= k < trs.len() ==> used(d, (#[trigger] trs[k]).0, trs[k].1) && d.transitions@[trs[k].0][trs[k].1] == trs[k].2,
        forall|q2: u32, id: InpId| #[trigger] used(d, q2, id) ==> exists|k: int| 0 <= k < trs.len() && #[trigger] trs[k] == (q2, id, d.transitions@[q2][id]),
    ensures sub_upto(d, idm, trs, trs.len() as int, l, q, sidx) == sub_compl(d, idm, l, q, sidx)
{
    if sub_upto(d, idm, trs, trs.len() as int, l, q, sidx) {
        let m = choose|m: int| 0 <= m < trs.len() && m < trs.len() && #[trigger] tr_sub(d, idm, trs[m], l, q, sidx);
        assert(used(d, trs[m].0, trs[m].1));
        assert(trs[m] == (q, trs[m].1, d.transitions@[q][trs[m].1]));
    }
    if sub_compl(d, idm, l, q, sidx) {
        let id = choose|id: InpId| #[trigger] used(d, q, id) && tr_sub(d, idm, (q, id, d.transitions@[q][id]), l, q, sidx);
        let k = choose|k: int| 0 <= k < trs.len() && #[trigger] trs[k] == (q, id, d.transitions@[q][id]);
        assert(tr_sub(d, idm, trs[k], l, q, sidx));
    }
}

} // verus!
