// C04 / C06: what the DFA getters (the functions the table builders and the emitters read the
// automaton through) return, stated over the automaton's own fields.
verus! {

/// state q has a transition on the symbol id
spec fn used(d: DFA, q: u32, id: InpId) -> bool {
    d.transitions@.contains_key(q) && d.transitions@[q].contains_key(id)
}

/// every symbol id of the table is an index of the symbol pool
spec fn dfa_wf(d: DFA) -> bool {
    forall|q: u32, id: InpId| #[trigger] used(d, q, id) ==> 0 <= ix_of(id) < d.inputs@.len()
}

/// every within-word symbol of the pool names an automaton of the automaton pool
spec fn subs_wf(d: DFA) -> bool {
    forall|i: int| 0 <= i < d.inputs@.len() ==> ((#[trigger] d.inputs@[i]) is Subword ==> 0 <= dfa_ix(d.inputs@[i]->subdfa) < d.subdfas.store@.len())
}

/// x labels some transition
spec fn on_edge(d: DFA, x: Inp) -> bool {
    exists|q: u32, id: InpId| #[trigger] used(d, q, id) && 0 <= ix_of(id) < d.inputs@.len() && d.inputs@[ix_of(id)] == x
}

/// s is the within-word automaton of some transition
spec fn is_subword_of(d: DFA, s: DFA) -> bool {
    exists|x: Inp| #[trigger] on_edge(d, x) && x is Subword && 0 <= dfa_ix(x->subdfa) < d.subdfas.store@.len() && d.subdfas.store@[dfa_ix(x->subdfa)] == s
}

spec fn has_command(d: DFA) -> bool { exists|x: Inp| #[trigger] on_edge(d, x) && x is Command }
spec fn has_compadd(d: DFA) -> bool { exists|x: Inp| #[trigger] on_edge(d, x) && x is Compadd }
spec fn has_star(d: DFA) -> bool { exists|x: Inp| #[trigger] on_edge(d, x) && x is Star }

/// the within-word automata are well-formed too (one level: they hold no further automata)
spec fn subs_ok(d: DFA) -> bool {
    forall|s: DFA| #[trigger] is_subword_of(d, s) ==> dfa_wf(s)
}

} // verus!
verus! {

/// the tuple get_literal_transitions_from reports for the transition (from, id)
spec fn lit_entry(d: DFA, from: u32, id: InpId, t: (Ustr, Ustr, u32)) -> bool {
    used(d, from, id) && 0 <= ix_of(id) < d.inputs@.len() && match d.inputs@[ix_of(id)] {
        Inp::Literal { literal, description, fallback_level } => t.0 == literal && t.2 == d.transitions@[from][id]
            && (match description { Some(x) => t.1 == x, None => t.1@.len() == 0 }),
        _ => false,
    }
}

spec fn cmd_entry(d: DFA, from: u32, id: InpId, t: (Ustr, u32)) -> bool {
    used(d, from, id) && 0 <= ix_of(id) < d.inputs@.len() && match d.inputs@[ix_of(id)] {
        Inp::Command { cmd, fallback_level } => t.0 == cmd && t.1 == d.transitions@[from][id],
        _ => false,
    }
}

spec fn compadd_entry(d: DFA, from: u32, id: InpId, t: (Ustr, u32)) -> bool {
    used(d, from, id) && 0 <= ix_of(id) < d.inputs@.len() && match d.inputs@[ix_of(id)] {
        Inp::Compadd { cmd, fallback_level } => t.0 == cmd && t.1 == d.transitions@[from][id],
        _ => false,
    }
}

spec fn sub_entry(d: DFA, from: u32, id: InpId, t: (DFAId, u32)) -> bool {
    used(d, from, id) && 0 <= ix_of(id) < d.inputs@.len() && match d.inputs@[ix_of(id)] {
        Inp::Subword { subdfa, fallback_level } => t.0 == subdfa && t.1 == d.transitions@[from][id],
        _ => false,
    }
}

} // verus!
verus! {

/// s is the source or the target of some transition
spec fn is_end(d: DFA, s: u32) -> bool {
    exists|q: u32, id: InpId| #[trigger] used(d, q, id) && (q == s || d.transitions@[q][id] == s)
}

} // verus!
verus! {

/// the symbol runs the external command c (as a command or as a zsh compadd)
spec fn is_cmd(x: Inp, c: Ustr) -> bool {
    match x {
        Inp::Command { cmd, fallback_level } => cmd == c,
        Inp::Compadd { cmd, fallback_level } => cmd == c,
        _ => false,
    }
}

spec fn top_cmd(d: DFA, c: Ustr) -> bool { exists|x: Inp| #[trigger] on_edge(d, x) && is_cmd(x, c) }

spec fn sub_cmd(d: DFA, c: Ustr) -> bool { exists|s: DFA| #[trigger] is_subword_of(d, s) && top_cmd(s, c) }

/// what one transition symbol of d contributes to the command table
spec fn contrib(d: DFA, x: Inp, c: Ustr) -> bool {
    is_cmd(x, c) || (x is Subword && 0 <= dfa_ix(x->subdfa) < d.subdfas.store@.len() && top_cmd(d.subdfas.store@[dfa_ix(x->subdfa)], c))
}

spec fn contrib_upto(d: DFA, ins: Seq<&Inp>, n: int, c: Ustr) -> bool {
    exists|m: int| 0 <= m < n && m < ins.len() && #[trigger] contrib(d, *ins[m], c)
}

spec fn cmd_upto(ins: Seq<&Inp>, n: int, c: Ustr) -> bool {
    exists|m: int| 0 <= m < n && m < ins.len() && #[trigger] is_cmd(*ins[m], c)
}

} // verus!
verus! {

proof fn lemma_contrib_step(d: DFA, ins: Seq<&Inp>, n: int, c: Ustr)
    requires 0 <= n < ins.len()
    ensures contrib_upto(d, ins, n + 1, c) == (contrib_upto(d, ins, n, c) || contrib(d, *ins[n], c))
{
    if contrib_upto(d, ins, n + 1, c) {
        let m = choose|m: int| 0 <= m < n + 1 && m < ins.len() && #[trigger] contrib(d, *ins[m], c);
        if m < n { assert(contrib_upto(d, ins, n, c)); }
    }
    if contrib_upto(d, ins, n, c) {
        let m = choose|m: int| 0 <= m < n && m < ins.len() && #[trigger] contrib(d, *ins[m], c);
        assert(contrib_upto(d, ins, n + 1, c));
    }
    if contrib(d, *ins[n], c) { assert(contrib_upto(d, ins, n + 1, c)); }
}

proof fn lemma_cmd_step(ins: Seq<&Inp>, n: int, c: Ustr)
    requires 0 <= n < ins.len()
    ensures cmd_upto(ins, n + 1, c) == (cmd_upto(ins, n, c) || is_cmd(*ins[n], c))
{
    if cmd_upto(ins, n + 1, c) {
        let m = choose|m: int| 0 <= m < n + 1 && m < ins.len() && #[trigger] is_cmd(*ins[m], c);
        if m < n { assert(cmd_upto(ins, n, c)); }
    }
    if cmd_upto(ins, n, c) {
        let m = choose|m: int| 0 <= m < n && m < ins.len() && #[trigger] is_cmd(*ins[m], c);
        assert(cmd_upto(ins, n + 1, c));
    }
    if is_cmd(*ins[n], c) { assert(cmd_upto(ins, n + 1, c)); }
}

/// all symbols of the vector scanned = the symbols on the edges
proof fn lemma_cmd_all(d: DFA, ins: Seq<&Inp>, c: Ustr)
    requires
        forall|k: int| 0 <= k < ins.len() ==> on_edge(d, *(#[trigger] ins[k])),
        forall|x: Inp| on_edge(d, x) ==> exists|k: int| 0 <= k < ins.len() && *(#[trigger] ins[k]) == x,
    ensures cmd_upto(ins, ins.len() as int, c) == top_cmd(d, c)
{
    if cmd_upto(ins, ins.len() as int, c) {
        let m = choose|m: int| 0 <= m < ins.len() && m < ins.len() && #[trigger] is_cmd(*ins[m], c);
        assert(on_edge(d, *ins[m]));
    }
    if top_cmd(d, c) {
        let x = choose|x: Inp| #[trigger] on_edge(d, x) && is_cmd(x, c);
        let k = choose|k: int| 0 <= k < ins.len() && *(#[trigger] ins[k]) == x;
        assert(is_cmd(*ins[k], c));
    }
}

proof fn lemma_contrib_all(d: DFA, ins: Seq<&Inp>, c: Ustr)
    requires
        forall|k: int| 0 <= k < ins.len() ==> on_edge(d, *(#[trigger] ins[k])),
        forall|x: Inp| on_edge(d, x) ==> exists|k: int| 0 <= k < ins.len() && *(#[trigger] ins[k]) == x,
    ensures contrib_upto(d, ins, ins.len() as int, c) == (top_cmd(d, c) || sub_cmd(d, c))
{
    if contrib_upto(d, ins, ins.len() as int, c) {
        let m = choose|m: int| 0 <= m < ins.len() && m < ins.len() && #[trigger] contrib(d, *ins[m], c);
        let x = *ins[m];
        assert(on_edge(d, x));
        if !is_cmd(x, c) {
            let s = d.subdfas.store@[dfa_ix(x->subdfa)];
            assert(is_subword_of(d, s));
            assert(sub_cmd(d, c));
        }
    }
    if top_cmd(d, c) {
        let x = choose|x: Inp| #[trigger] on_edge(d, x) && is_cmd(x, c);
        let k = choose|k: int| 0 <= k < ins.len() && *(#[trigger] ins[k]) == x;
        assert(contrib(d, *ins[k], c));
    }
    if sub_cmd(d, c) {
        let s = choose|s: DFA| #[trigger] is_subword_of(d, s) && top_cmd(s, c);
        let x = choose|x: Inp| #[trigger] on_edge(d, x) && x is Subword && 0 <= dfa_ix(x->subdfa) < d.subdfas.store@.len() && d.subdfas.store@[dfa_ix(x->subdfa)] == s;
        let k = choose|k: int| 0 <= k < ins.len() && *(#[trigger] ins[k]) == x;
        assert(contrib(d, *ins[k], c));
    }
}

} // verus!
