// shared with unit min: the states of an automaton
verus! {

/// s is the source or the target of some transition
spec fn is_end(d: DFA, s: u32) -> bool {
    exists|q: u32, id: InpId| #[trigger] used(d, q, id) && (q == s || d.transitions@[q][id] == s)
}

} // verus!
