/verif/kani/core/target/kani/x86_64-unknown-linux-gnu/debug/libkani_core.rlib: /verif/kani/core/gen/items.rs /verif/kani/core/src/lib.rs
