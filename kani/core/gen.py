#!/usr/bin/env python3
"""Mechanical extraction for the Kani harness crate: the named items of /repo/src are copied
verbatim (vx, plain mode: no rewrites, no contracts) into gen/items.rs, which src/lib.rs includes
next to stand-ins for the two dependency types they mention (Ustr as an interned id, the crate's
Error/Result). Prints the harness list as JSON."""
import json, os, subprocess, sys
repo, build = sys.argv[1], sys.argv[2]
here = os.path.dirname(os.path.abspath(__file__))
root = os.path.dirname(os.path.dirname(here))
os.makedirs(os.path.join(here, "gen"), exist_ok=True)
env = dict(os.environ, VX_PLAIN="1")
r = subprocess.run([os.path.join(root, "tools/vx/target/release/vx"), os.path.join(here, "items.ctr"), os.path.join(repo, "src"), root, os.path.join(here, "gen", "items")], env=env, capture_output=True, text=True)
if r.returncode != 0:
    sys.stderr.write(r.stderr or r.stdout)
    sys.exit(2)
m = json.load(open(os.path.join(here, "gen", "items.map.json")))
print(json.dumps({
    "crate_dir": here,
    "flags": [],
    "complete": True,
    "functions": [{"path": it["path"], "src": f"{it['src_file']}:{it['src_line']}", "sha256": it["sha256"]} for it in m["items"]],
    "harnesses": [
        {"name": "alphabet_is_ascii_and_unreserved", "obligation": "C07.alphabet.regular_chars_safe"},
        {"name": "command_name_valid_iff_no_slash", "obligation": "C08.is_valid_command_name.iff_no_slash"},
        {"name": "shell_from_str_known", "obligation": "C08.shell_from_str.known_names"},
        {"name": "shell_from_str_unknown", "obligation": "C08.shell_from_str.unknown_rejected_with_span"},
        {"name": "inp_same_reading_same_symbol", "obligation": "C09.inp_eq.same_literal_same_symbol"},
        {"name": "inp_eq_is_structural", "obligation": "C09.inp_eq.structural"},
        {"name": "array_start_per_shell", "obligation": "C04.array_start.per_shell"},
        {"name": "inp_every_item_reports_its_level", "obligation": "C06.inp.every_item_has_its_level"},
        {"name": "inp_from_input_keeps_labels", "obligation": "C02.from_input.labels_carried_over"},
    ],
}))
