//! Kani harnesses over items extracted verbatim from /repo/src (see gen.py). All harnesses are
//! loop-free over full-domain symbolic inputs (complete) except where a bound is stated.
#![allow(dead_code, unused)]

/// stand-in for ustr::Ustr: an interned string is identified by its id (equality = same text)
#[derive(Debug, Clone, Copy, PartialEq, Eq, Hash, PartialOrd, Ord, Default)]
pub struct Ustr(pub u32);

#[derive(Debug)]
pub enum Error {
    UnknownShell(HumanSpan),
}
pub type Result<T> = std::result::Result<T, Error>;

/// stand-ins for the types Inp::from_input mentions for its within-word arm (not exercised by the
/// harness: that arm compiles a nested automaton and is covered by the pipeline stand-in)
pub struct Regex;
impl Clone for Regex { fn clone(&self) -> Self { Regex } }
pub struct RegexInternPool;
impl RegexInternPool { pub fn lookup(&self, _id: RegexId) -> &Regex { unreachable!() } }
pub struct DFA;
impl DFA {
    pub fn from_regex(_r: Regex, _p: &RegexInternPool) -> Result<DFA> { unreachable!() }
    pub fn minimize(self) -> DFA { unreachable!() }
    pub fn check_ambiguity_best_effort(&self) -> Result<()> { unreachable!() }
}
pub struct DFAInternPool;
impl DFAInternPool { pub fn intern(&mut self, _d: DFA) -> DFAId { unreachable!() } }
pub struct HashMap<K, V>(std::marker::PhantomData<(K, V)>);
impl<K, V> HashMap<K, V> {
    pub fn get(&self, _k: &K) -> Option<&V> { unreachable!() }
    pub fn insert(&mut self, _k: K, _v: V) -> Option<V> { unreachable!() }
}

include!("../gen/items.rs");

#[cfg(kani)]
mod harnesses {
    use super::*;

    fn any_span() -> HumanSpan {
        HumanSpan { line: kani::any(), column_start: kani::any(), column_end: kani::any() }
    }

    /// C07: every character the lexer admits unescaped in a literal is ASCII and is none of the
    /// grammar's reserved characters, blanks, backslash or dot. Full domain: all `char`.
    #[kani::proof]
    fn alphabet_is_ascii_and_unreserved() {
        let c: char = kani::any();
        if is_regular_terminal_char(c) {
            assert!(c.is_ascii());
            assert!(!c.is_ascii_whitespace() && !c.is_ascii_control());
            assert!(!matches!(c, '(' | ')' | '[' | ']' | '<' | '>' | '|' | ';' | '"' | '{' | '}' | '\\' | '.'));
        }
        // and everything alphanumeric is admitted
        if c.is_ascii_alphanumeric() {
            assert!(is_regular_terminal_char(c));
        }
    }

    /// C08: a command name is rejected iff it contains '/'. Bounded: names of <= 4 bytes of
    /// ASCII (labelled bounded: `str::contains` loops over the bytes).
    #[kani::proof]
    #[kani::unwind(6)]
    fn command_name_valid_iff_no_slash() {
        let bytes: [u8; 4] = kani::any();
        let len: usize = kani::any();
        kani::assume(len <= 4);
        kani::assume(bytes.iter().all(|b| b.is_ascii()));
        let s = std::str::from_utf8(&bytes[..len]).unwrap();
        let has_slash = bytes[..len].iter().any(|b| *b == b'/');
        assert!(is_valid_command_name(s) == !has_slash);
    }

    /// C08: exactly the four documented shell names are accepted.
    #[kani::proof]
    #[kani::unwind(6)]
    fn shell_from_str_known() {
        let sp = any_span();
        assert!(matches!(Shell::from_str("bash", sp), Ok(Shell::Bash)));
        assert!(matches!(Shell::from_str("fish", sp), Ok(Shell::Fish)));
        assert!(matches!(Shell::from_str("zsh", sp), Ok(Shell::Zsh)));
        assert!(matches!(Shell::from_str("pwsh", sp), Ok(Shell::Pwsh)));
    }

    /// C08: any other name of <= 4 ASCII bytes is rejected with UnknownShell carrying the span
    /// it was given (bounded by the name length).
    #[kani::proof]
    #[kani::unwind(6)]
    fn shell_from_str_unknown() {
        let bytes: [u8; 4] = kani::any();
        let len: usize = kani::any();
        kani::assume(len <= 4);
        kani::assume(bytes.iter().all(|b| b.is_ascii()));
        let s = std::str::from_utf8(&bytes[..len]).unwrap();
        kani::assume(s != "bash" && s != "fish" && s != "zsh" && s != "pwsh");
        let sp = any_span();
        match Shell::from_str(s, sp) {
            Err(Error::UnknownShell(got)) => assert!(got == sp),
            _ => assert!(false),
        }
    }

    fn any_inp() -> Inp {
        match kani::any::<u8>() % 5 {
            0 => Inp::Literal {
                literal: Ustr(kani::any()),
                description: if kani::any() { Some(Ustr(kani::any())) } else { None },
                fallback_level: kani::any(),
            },
            1 => Inp::Subword { subdfa: DFAId(kani::any()), fallback_level: kani::any() },
            2 => Inp::Command { cmd: Ustr(kani::any()), fallback_level: kani::any() },
            3 => Inp::Compadd { cmd: Ustr(kani::any()), fallback_level: kani::any() },
            _ => Inp::Star,
        }
    }

    /// C09 (contract-level statement of "a typed word never has two readings"): two expected
    /// literals with the same text are the same automaton symbol. FAILS on the current tree
    /// (known finding D10: description and fallback level take part in symbol identity).
    #[kani::proof]
    fn inp_same_reading_same_symbol() {
        let a = any_inp();
        let b = any_inp();
        if let (Inp::Literal { literal: la, .. }, Inp::Literal { literal: lb, .. }) = (&a, &b) {
            if la == lb {
                assert!(a == b);
            }
        }
    }

    /// C09: symbol equality is structural on (text, description, level) / (automaton, level) /
    /// (command, level): equal symbols agree on every label, so merging equal symbols in the
    /// subset construction never moves a description or a level to another literal.
    #[kani::proof]
    fn inp_eq_is_structural() {
        let a = any_inp();
        let b = any_inp();
        if a == b {
            match (&a, &b) {
                (Inp::Literal { literal: l1, description: d1, fallback_level: f1 }, Inp::Literal { literal: l2, description: d2, fallback_level: f2 }) => assert!(l1 == l2 && d1 == d2 && f1 == f2),
                (Inp::Subword { subdfa: s1, fallback_level: f1 }, Inp::Subword { subdfa: s2, fallback_level: f2 }) => assert!(s1 == s2 && f1 == f2),
                (Inp::Command { cmd: c1, fallback_level: f1 }, Inp::Command { cmd: c2, fallback_level: f2 }) => assert!(c1 == c2 && f1 == f2),
                (Inp::Compadd { cmd: c1, fallback_level: f1 }, Inp::Compadd { cmd: c2, fallback_level: f2 }) => assert!(c1 == c2 && f1 == f2),
                (Inp::Star, Inp::Star) => {}
                _ => assert!(false),
            }
        }
    }

    /// C06 / C02: every expected item except "any word" reports its own `||` level (the emitters
    /// unwrap it for every item they list), "any word" has none, and is_star holds exactly for it.
    /// Full domain of the extracted enum, loop-free.
    #[kani::proof]
    fn inp_every_item_reports_its_level() {
        let a = any_inp();
        match &a {
            Inp::Literal { fallback_level, .. } | Inp::Subword { fallback_level, .. } | Inp::Command { fallback_level, .. } | Inp::Compadd { fallback_level, .. } => {
                assert!(a.get_fallback_level() == Some(*fallback_level));
                assert!(!a.is_star());
            }
            Inp::Star => {
                assert!(a.get_fallback_level().is_none());
                assert!(a.is_star());
            }
        }
    }

    /// C02 / C11: an expected item of the regex becomes the automaton symbol with the same text,
    /// description and `||` level; a placeholder becomes "any word"; an external command becomes a
    /// compadd symbol exactly when it is marked zsh_compadd. Full domain of the three
    /// non-nested variants of the extracted enum, loop-free.
    #[kani::proof]
    fn inp_from_input_keeps_labels() {
        let sp = any_span();
        let level: usize = kani::any();
        let (a, b): (u32, u32) = (kani::any(), kani::any());
        let has_descr: bool = kani::any();
        let compadd: bool = kani::any();
        let which: u8 = kani::any();
        let input = match which % 3 {
            0 => RegexInput::Literal { literal: Ustr(a), description: if has_descr { Some(Ustr(b)) } else { None }, fallback_level: level, span: sp },
            1 => RegexInput::Nonterminal { nonterm: Ustr(a), fallback_level: level, span: sp },
            _ => RegexInput::Command { cmd: Ustr(a), zsh_compadd: compadd, fallback_level: level, span: sp },
        };
        let pool = RegexInternPool;
        let mut subdfas = DFAInternPool;
        let mut cache: HashMap<RegexId, DFAId> = HashMap(std::marker::PhantomData);
        let got = Inp::from_input(&input, &pool, &mut subdfas, &mut cache);
        let want = match which % 3 {
            0 => Inp::Literal { literal: Ustr(a), description: if has_descr { Some(Ustr(b)) } else { None }, fallback_level: level },
            1 => Inp::Star,
            _ => if compadd { Inp::Compadd { cmd: Ustr(a), fallback_level: level } } else { Inp::Command { cmd: Ustr(a), fallback_level: level } },
        };
        match got {
            Ok(g) => assert!(g == want),
            Err(_) => assert!(false),
        }
    }

    /// C04: the index base added to every state / literal id on output is the shell's documented
    /// array base: bash 0, fish 1, zsh 1, PowerShell 0.
    #[kani::proof]
    fn array_start_per_shell() {
        assert!(bash::ARRAY_START == 0);
        assert!(fish::ARRAY_START == 1);
        assert!(zsh::ARRAY_START == 1);
        assert!(pwsh::ARRAY_START == 0);
    }
}
